#!/bin/bash
# Offline setup after a fresh restore: optional third-party monitor libraries beside the repo's interpreter.
cd "$(dirname "${BASH_SOURCE[0]}")" || exit 1
mkdir -p .deps evidence
if ! PYTHONPATH=.deps /venv/bin/python -c "import icontract" 2>/dev/null; then
  PIP_NO_INDEX=1 /venv/bin/pip install -q --no-index --find-links /opt/veriftools/wheels --target .deps icontract >/dev/null 2>&1 || echo "icontract not installable; checks fall back to plain wrappers"
fi
/venv/bin/python -c "import pandapipes, sys; print('pandapipes from', pandapipes.__file__)"
exit 0
