"""Runner of the runtime-monitoring checks.

    python -m pvmon.core <PROPERTY_ID> [--tier quick|thorough] [--replay FILE] [--workers N]

The parent process only plans shards, starts one worker subprocess per shard (subprocess.run with a
time-out, never multiprocessing.Pool), aggregates the observation records the workers wrote,
classifies violations against /verif/known_findings.json, writes evidence/<id>.json and decides the
three-valued verdict (exit 0 held / 1 violated / 2 inconclusive).
"""
import argparse
import concurrent.futures
import hashlib
import importlib
import json
import os
import shutil
import subprocess
import sys
import time

ROOT = os.path.dirname(os.path.dirname(os.path.abspath(__file__)))
LEVEL = "exploration"


def jhash(obj):
    return hashlib.sha1(json.dumps(obj, sort_keys=True, default=str).encode()).hexdigest()[:16]


def jdefault(o):
    import numpy as np
    if isinstance(o, (np.integer,)):
        return int(o)
    if isinstance(o, (np.floating,)):
        return float(o)
    if isinstance(o, (np.bool_,)):
        return bool(o)
    if isinstance(o, np.ndarray):
        return o.tolist()
    if isinstance(o, (set, frozenset)):
        return sorted(o, key=str)
    return str(o)


def dumps(obj, **kw):
    return json.dumps(obj, default=jdefault, **kw)


def load_prop(pid):
    return importlib.import_module("pvmon.props.%s" % pid.lower())


def load_known():
    path = os.path.join(ROOT, "known_findings.json")
    if not os.path.exists(path):
        return []
    with open(path) as f:
        return json.load(f)["findings"]


# ------------------------------------------------------------------------------------------------
# worker side
# ------------------------------------------------------------------------------------------------

def worker_main(pid, tier, seed, shard, nshards, outdir):
    import faulthandler
    faulthandler.enable()
    import logging
    logging.disable(logging.CRITICAL)
    import warnings
    warnings.filterwarnings("ignore")
    mod = load_prop(pid)
    import pandapipes
    out_path = os.path.join(outdir, "shard_%03d.jsonl" % shard)
    ctx = {"tier": tier, "seed": seed, "shard": shard, "nshards": nshards}
    if hasattr(mod, "worker_init"):
        mod.worker_init(ctx)
    cases = mod.gen_cases(tier, seed)
    my = [(i, c) for i, c in enumerate(cases) if i % nshards == shard]
    budget = float(os.environ.get("VERIF_SHARD_BUDGET_S", "0") or 0)
    t0 = time.time()
    with open(out_path, "w") as f:
        f.write(dumps({"kind": "start", "shard": shard, "ncases": len(my), "ntotal": len(cases),
                       "pandapipes_file": pandapipes.__file__}) + "\n")
        f.flush()
        for i, case in my:
            if budget and time.time() - t0 > budget:
                f.write(dumps({"kind": "skipped", "case_index": i}) + "\n")
                continue
            rec = run_one(mod, case, ctx)
            rec["kind"] = "case"
            rec["case_index"] = i
            f.write(dumps(rec) + "\n")
            f.flush()
        f.write(dumps({"kind": "done", "shard": shard, "wall_s": time.time() - t0}) + "\n")


def run_one(mod, case, ctx):
    """Run one case under its monitor; a crash of the harness itself is an inconclusive case."""
    import traceback
    t0 = time.time()
    try:
        rec = mod.run_case(case, ctx)
    except Exception as e:  # harness error, not a verdict
        rec = {"error": "%s: %s" % (type(e).__name__, e), "traceback": traceback.format_exc()[-2000:]}
    rec.setdefault("violations", [])
    rec.setdefault("counters", {})
    rec.setdefault("maxima", {})
    rec.setdefault("nontrivial", False)
    rec["hash"] = rec.get("hash") or jhash(case)
    rec["wall_s"] = round(time.time() - t0, 4)
    if rec["violations"] or rec.get("error"):
        rec["case"] = case
    return rec


# ------------------------------------------------------------------------------------------------
# parent side
# ------------------------------------------------------------------------------------------------

def run_check(pid, tier, seed, workers=None, keep=False):
    t_start = time.time()
    mod = load_prop(pid)
    cfg = mod.CONFIG[tier]
    nshards = workers or cfg.get("shards", 8)
    nshards = max(1, min(nshards, int(os.environ.get("VERIF_MAX_WORKERS", "16"))))
    timeout = cfg.get("timeout_s", 600)
    rundir = os.path.join(ROOT, ".run", "%s_%s_%d_%d" % (pid, tier, seed, os.getpid()))
    shutil.rmtree(rundir, ignore_errors=True)
    os.makedirs(rundir)
    env = dict(os.environ)
    env.update(mod.CONFIG.get("env", {}))
    env.update(cfg.get("env", {}))

    def start(shard):
        cmd = [sys.executable, "-X", "faulthandler", "-m", "pvmon.core", "--worker", pid, tier,
               str(seed), str(shard), str(nshards), rundir]
        log = open(os.path.join(rundir, "shard_%03d.log" % shard), "w")
        try:
            p = subprocess.run(cmd, stdout=log, stderr=subprocess.STDOUT, timeout=timeout, env=env,
                               cwd=ROOT)
            return shard, p.returncode
        except subprocess.TimeoutExpired:
            return shard, "timeout"
        finally:
            log.close()

    with concurrent.futures.ThreadPoolExecutor(max_workers=nshards) as ex:
        rcs = dict(ex.map(start, range(nshards)))

    agg = aggregate(pid, tier, seed, mod, rundir, nshards, rcs)
    agg["wall_s"] = time.time() - t_start
    code = conclude(pid, tier, seed, mod, agg)
    if not keep:
        shutil.rmtree(rundir, ignore_errors=True)
        try:
            os.rmdir(os.path.join(ROOT, ".run"))
        except OSError:
            pass
    return code


def aggregate(pid, tier, seed, mod, rundir, nshards, rcs):
    counters, maxima = {}, {}
    violations, errors, samples = [], [], []
    hashes_nontrivial, hashes_all = set(), set()
    evaluations = 0
    incomplete_shards, skipped = [], 0
    pp_file = None
    ncases_total = None
    for shard in range(nshards):
        path = os.path.join(rundir, "shard_%03d.jsonl" % shard)
        done = False
        if os.path.exists(path):
            with open(path) as f:
                for line in f:
                    try:
                        rec = json.loads(line)
                    except ValueError:
                        continue
                    k = rec.get("kind")
                    if k == "start":
                        pp_file = rec["pandapipes_file"]
                        ncases_total = rec["ntotal"]
                    elif k == "done":
                        done = True
                    elif k == "skipped":
                        skipped += 1
                    elif k == "case":
                        if rec.get("error"):
                            errors.append({"case_index": rec["case_index"], "error": rec["error"],
                                           "traceback": rec.get("traceback"), "case": rec.get("case")})
                            continue
                        evaluations += rec.get("evaluations", 1)
                        for c, v in rec["counters"].items():
                            counters[c] = counters.get(c, 0) + v
                        for c, v in rec["maxima"].items():
                            if v is not None and (c not in maxima or v > maxima[c]):
                                maxima[c] = v
                        hashes_all.add(rec["hash"])
                        if rec["nontrivial"]:
                            hashes_nontrivial.add(rec["hash"])
                            if rec.get("sample") is not None and len(samples) < 3:
                                samples.append(rec["sample"])
                        for v in rec["violations"]:
                            v = dict(v)
                            v["case"] = rec.get("case")
                            v["case_index"] = rec["case_index"]
                            violations.append(v)
        if not done:
            tail = ""
            lp = os.path.join(rundir, "shard_%03d.log" % shard)
            if os.path.exists(lp):
                with open(lp, errors="replace") as f:
                    tail = f.read()[-1500:]
            incomplete_shards.append({"shard": shard, "returncode": rcs.get(shard), "log_tail": tail})
    return dict(counters=counters, maxima=maxima, violations=violations, errors=errors,
                samples=samples, distinct_nontrivial=len(hashes_nontrivial),
                distinct=len(hashes_all), evaluations=evaluations,
                incomplete_shards=incomplete_shards, skipped=skipped, pandapipes_file=pp_file,
                ncases_total=ncases_total)


def classify(pid, violations):
    """Split violations into known (listed open findings, by mechanism tag) and new."""
    known = [k for k in load_known() if k.get("property") == pid and k.get("status") == "open"]
    mechs = {k["mechanism"]: k for k in known}
    known_hit, new = {}, []
    for v in violations:
        tag = v.get("tag", "untagged")
        if tag in mechs:
            known_hit.setdefault(tag, []).append(v)
        else:
            new.append(v)
    return mechs, known_hit, new


def conclude(pid, tier, seed, mod, agg):
    mechs, known_hit, new = classify(pid, agg["violations"])
    required = getattr(mod, "REQUIRED_COUNTERS", {})
    if isinstance(required, dict):
        required = required.get(tier, required.get("quick", []))
    missing = [c for c in required if agg["counters"].get(c, 0) <= 0]
    inconclusive_reasons = []
    if agg["incomplete_shards"]:
        inconclusive_reasons.append("worker shards did not finish: %s" % [
            (s["shard"], s["returncode"]) for s in agg["incomplete_shards"]])
    if agg["errors"]:
        inconclusive_reasons.append("%d cases hit harness errors (first: %s)" % (
            len(agg["errors"]), agg["errors"][0]["error"]))
    if missing:
        inconclusive_reasons.append("required observation counters are zero: %s" % missing)
    if agg["distinct_nontrivial"] < 2:
        inconclusive_reasons.append("fewer than 2 distinct non-trivial cases observed")
    if agg["pandapipes_file"] and not os.path.realpath(agg["pandapipes_file"]).startswith(
            os.path.realpath(os.environ.get("VERIF_REPO", "/repo"))):
        inconclusive_reasons.append("pandapipes imported from %s" % agg["pandapipes_file"])

    # replay files for new violations, one per mechanism tag (first witness), plus a count
    replay_dir = os.environ.get("VERIF_REPLAY_DIR") or os.path.join(ROOT, "replays")
    lines = []
    by_tag = {}
    for v in new:
        by_tag.setdefault(v.get("tag", "untagged"), []).append(v)
    for tag, vs in sorted(by_tag.items()):
        os.makedirs(replay_dir, exist_ok=True)
        v0 = vs[0]
        path = os.path.join(replay_dir, "%s_%s_%s.json" % (pid, tag, jhash(v0.get("case"))[:8]))
        with open(path, "w") as f:
            f.write(dumps({"property": pid, "tier": tier, "seed": seed, "tag": tag,
                           "message": v0.get("msg"), "witness": v0.get("witness"),
                           "occurrences_in_run": len(vs), "case": v0.get("case")}, indent=1))
        lines.append("VIOLATION property=%s replay=%s" % (pid, path))
        print("  [%s] x%d: %s" % (tag, len(vs), v0.get("msg")))

    for tag, vs in sorted(known_hit.items()):
        print("KNOWN-FINDING: property=%s %s [%s] (seen %d times in this run)" % (
            pid, mechs[tag]["what"], tag, len(vs)))
    # listed findings that this run did not exercise are still announced, marked as such
    for tag, k in sorted(mechs.items()):
        if tag not in known_hit:
            print("KNOWN-FINDING: property=%s %s [%s] (listed; not reproduced by this run's cases)" % (
                pid, k["what"], tag))

    cov = {
        "evaluations": agg["evaluations"],
        "distinct_nontrivial": agg["distinct_nontrivial"],
        "distinct_cases": agg["distinct"],
        "rule": mod.RULE,
        "samples": agg["samples"],
        "observed": agg["counters"],
        "maxima": agg["maxima"],
        "required_counters": required,
        "cases_planned": agg["ncases_total"],
        "cases_skipped_by_budget": agg["skipped"],
        "inconclusive_reasons": inconclusive_reasons,
        "harness_errors": len(agg["errors"]),
        "known_findings_hit": {t: len(v) for t, v in known_hit.items()},
        "new_violation_tags": {t: len(v) for t, v in by_tag.items()},
        "pandapipes_imported_from": agg["pandapipes_file"],
    }
    if getattr(mod, "EXHAUSTIVE", {}).get(tier):
        cov["exhaustive"] = True
    cov.update(getattr(mod, "extra_coverage", lambda a, t: {})(agg, tier))
    evidence = {
        "property_id": pid, "tier": tier, "seed": seed, "level": LEVEL, "coverage": cov,
        "assumptions": getattr(mod, "ASSUMPTIONS", []),
        "wall_s": round(agg["wall_s"], 2), "violations": len(new),
    }
    if os.environ.get("VERIF_NO_EVIDENCE") != "1":
        os.makedirs(os.path.join(ROOT, "evidence"), exist_ok=True)
        with open(os.path.join(ROOT, "evidence", "%s.json" % pid), "w") as f:
            f.write(dumps(evidence, indent=1))

    obs = ", ".join("%s=%s" % kv for kv in sorted(agg["counters"].items()))
    print("%s tier=%s seed=%d: %d executions, %d distinct non-trivial cases, wall %.1fs" % (
        pid, tier, seed, agg["evaluations"], agg["distinct_nontrivial"], agg["wall_s"]))
    print("  observed: %s" % obs)
    if agg["errors"] or agg["incomplete_shards"] or agg["skipped"]:
        print("  harness errors: %d (first: %s), unfinished shards: %d, cases skipped by budget: %d" % (
            len(agg["errors"]), agg["errors"][0]["error"] if agg["errors"] else None,
            len(agg["incomplete_shards"]), agg["skipped"]))
    if agg["maxima"]:
        print("  maxima: %s" % ", ".join("%s=%.3g" % kv for kv in sorted(agg["maxima"].items())))
    if lines:
        for ln in lines:
            print(ln)
        return 1
    if inconclusive_reasons:
        for r in inconclusive_reasons:
            print("INCONCLUSIVE property=%s reason=%s" % (pid, r))
        for e in agg["errors"][:3]:
            print(e.get("traceback") or e["error"])
        for s in agg["incomplete_shards"][:2]:
            print(s["log_tail"])
        return 2
    print("HELD property=%s on everything observed" % pid)
    return 0


def replay(pid, path):
    import logging
    logging.disable(logging.CRITICAL)
    import warnings
    warnings.filterwarnings("ignore")
    mod = load_prop(pid)
    with open(path) as f:
        rp = json.load(f)
    ctx = {"tier": rp.get("tier", "quick"), "seed": rp.get("seed", 0), "shard": 0, "nshards": 1,
           "replay": True}
    if hasattr(mod, "worker_init"):
        mod.worker_init(ctx)
    rec = run_one(mod, rp["case"], ctx)
    if rec.get("error"):
        print("INCONCLUSIVE property=%s reason=harness error %s" % (pid, rec["error"]))
        print(rec.get("traceback"))
        return 2
    mechs, known_hit, new = classify(pid, rec["violations"])
    for v in rec["violations"]:
        print("  [%s] %s\n     witness: %s" % (v.get("tag"), v.get("msg"), dumps(v.get("witness"))))
    if new:
        print("VIOLATION property=%s replay=%s" % (pid, path))
        return 1
    for tag in known_hit:
        print("KNOWN-FINDING: property=%s %s [%s]" % (pid, mechs[tag]["what"], tag))
    print("replay: no unlisted violation reproduced")
    return 0


def main(argv=None):
    argv = list(sys.argv[1:] if argv is None else argv)
    if argv and argv[0] == "--worker":
        _, pid, tier, seed, shard, nshards, outdir = argv
        worker_main(pid, tier, int(seed), int(shard), int(nshards), outdir)
        return 0
    ap = argparse.ArgumentParser()
    ap.add_argument("property")
    ap.add_argument("--tier", default=os.environ.get("VERIF_TIER", "quick"),
                    choices=["quick", "thorough"])
    ap.add_argument("--replay")
    ap.add_argument("--workers", type=int)
    ap.add_argument("--keep", action="store_true")
    a = ap.parse_args(argv)
    seed = int(os.environ.get("VERIF_SEED", "0") or 0)
    pid = a.property.upper()
    if a.replay:
        return replay(pid, a.replay)
    return run_check(pid, a.tier, seed, a.workers, a.keep)


if __name__ == "__main__":
    sys.exit(main())
