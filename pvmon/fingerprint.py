"""Deep fingerprint of everything a user owns in a pandapipes net (non-underscore entries)."""
import hashlib
import pickle

import numpy as np
import pandas as pd


def _df(df):
    h = hashlib.sha1()
    h.update(repr(list(df.columns)).encode())
    h.update(repr([str(t) for t in df.dtypes.values]).encode())
    h.update(repr(df.index.tolist()).encode() + str(df.index.dtype).encode())
    if len(df.columns):
        kinds = {t.kind for t in df.dtypes.values}
        if kinds <= {"f"}:
            h.update(np.ascontiguousarray(df.to_numpy()).tobytes())
        else:
            for arr in (df[c].to_numpy() for c in df.columns):
                h.update(arr.tobytes() if arr.dtype.kind in "fiub" else repr(arr.tolist()).encode())
    return h.hexdigest()


def _col(series):
    arr = series.to_numpy()
    return hashlib.sha1((arr.tobytes() if arr.dtype.kind in "fiub" else repr(arr.tolist()).encode()) + str(arr.dtype).encode()).hexdigest()


def _obj(o):
    try:
        return hashlib.sha1(pickle.dumps(o, protocol=4)).hexdigest()
    except Exception:
        return repr(o)


_STD_CACHE = {}


def _std_types(v):
    """digest of the standard types; the (large, rarely changing) library is hashed once per content signature"""
    # cheap but value-sensitive signature: the values of every type take part (an in-place edit of one value of one
    # standard type changes it); the robust digest below is only recomputed when the signature changes
    def entry(t):
        if isinstance(t, dict):
            return tuple(t.values())
        d = getattr(t, "__dict__", None)
        return tuple(tuple(x) if hasattr(x, "__len__") and not isinstance(x, str) else x for x in d.values()) if d else id(t)
    try:
        key = hash(tuple((comp, tuple(d), tuple(map(entry, d.values()))) for comp, d in sorted(v.items())))
    except TypeError:
        key = None
    if key is None or key not in _STD_CACHE:
        if len(_STD_CACHE) > 50:
            _STD_CACHE.clear()
        _STD_CACHE[key] = _obj({comp: {n: (type(t).__name__, repr(sorted((a, repr(b)) for a, b in vars(t).items()))
                                           if hasattr(t, "__dict__") else repr(sorted(t.items())) if isinstance(t, dict) else repr(t))
                                       for n, t in sorted(d.items())} for comp, d in sorted(v.items())})
    return _STD_CACHE[key]


def fingerprint(net, include_results=False, per_column=False):
    """dict key -> digest for every user-facing entry; result tables optional."""
    out = {"user_pf_options": "[]"}   # an absent entry and an empty one are the same thing to a user
    for k in list(net.keys()):
        if not isinstance(k, str) or k.startswith("_"):
            continue
        v = net[k]
        if k.startswith("res_") and not include_results:
            continue
        if k == "converged":
            continue
        if isinstance(v, pd.DataFrame):
            out[k] = _df(v)
            if per_column:
                out[k] = _df(v.iloc[:, :0])
                for c in v.columns:
                    out["%s.%s" % (k, c)] = _col(v[c])
        elif k == "fluid":
            props = getattr(v, "all_properties", {})
            out[k] = _obj((type(v).__name__, v.name, getattr(v, "fluid_type", None),
                           {pn: (type(p).__name__, {a: (b.tobytes() if isinstance(b, np.ndarray) else repr(b))
                                                    for a, b in sorted(vars(p).items())}) for pn, p in sorted(props.items())}))
        elif k == "std_types":
            out[k] = _std_types(v)
        elif k == "user_pf_options":
            out[k] = repr(sorted((a, repr(b)) for a, b in v.items() if a != "hyd_flag"))
        elif k == "component_list":
            out[k] = repr([c.__name__ for c in v])
        else:
            out[k] = repr(v) if not hasattr(v, "__dict__") else _obj(v)
    return out


def diff(a, b):
    return sorted(k for k in set(a) | set(b) if a.get(k) != b.get(k))


def result_bytes(net):
    """Exact content of all result tables (for bit-identity checks)."""
    out = {}
    for k in list(net.keys()):
        if isinstance(k, str) and k.startswith("res_") and isinstance(net[k], pd.DataFrame):
            out[k] = _df(net[k])
    return out
