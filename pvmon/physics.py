"""Independent reference physics, written from the documentation (not from the kernels).

Constants are re-stated here on purpose: an edit of pandapipes.constants is then seen as a law
violation.  Fluid property values are taken through the public Fluid API (their correctness is the
subject of C19).
"""
import math

import numpy as np

G = 9.81
P_N = 1.01325
T_N = 273.15
P_CONV = 1e5


def p_amb(height_m):
    """Barometric formula documented for the height correction (bar)."""
    return P_N * (1.0 - np.asarray(height_m, dtype=float) * 0.0065 / 288.15) ** 5.255


def area(d_m):
    return math.pi * d_m * d_m / 4.0


def reynolds(mdot, d_m, eta):
    return abs(mdot) * d_m / (eta * area(d_m))


def lambda_turbulent_nikuradse(d_m, k_m, gas):
    if k_m <= 0.0:      # hydraulically smooth: the formula's limit
        return 0.0
    if gas:
        return 1.0 / (2.0 * math.log10(d_m / k_m) + 1.14) ** 2
    return 1.0 / (2.0 * math.log10(3.71 * d_m / k_m)) ** 2


def colebrook_root(re, d_m, k_m):
    """Root of 1/sqrt(l) = -2 log10(2.51/(re sqrt(l)) + k/(3.71 d)) by bisection (no scipy)."""
    def f(lam):
        return lam ** -0.5 + 2.0 * math.log10(2.51 / (re * math.sqrt(lam)) + k_m / (3.71 * d_m))
    lo, hi = 1e-8, 1e12
    flo = f(lo)
    for _ in range(200):
        mid = math.sqrt(lo * hi)
        fm = f(mid)
        if (fm > 0) == (flo > 0):
            lo, flo = mid, fm
        else:
            hi = mid
        if hi / lo - 1 < 1e-15:
            break
    return math.sqrt(lo * hi)


def friction_factor(model, re, d_m, k_m, gas):
    if model == "nikuradse":
        return 64.0 / re + lambda_turbulent_nikuradse(d_m, k_m, gas)
    if model == "swamee-jain":
        return 0.25 / math.log10(k_m / (3.7 * d_m) + 5.74 / re ** 0.9) ** 2
    if model == "colebrook":
        return colebrook_root(re, d_m, k_m)
    raise ValueError(model)


def gas_density(fluid, p_abs, t_k):
    rho_n = float(fluid.get_density(T_N))
    return rho_n * T_N * p_abs / (t_k * P_N * float(fluid.get_compressibility(p_abs)))


def mean_pressure(p1, p2):
    if p1 == p2:
        return p1
    return 2.0 / 3.0 * (p1 ** 3 - p2 ** 3) / (p1 ** 2 - p2 ** 2)


def mean_density(fluid, p1_abs, p2_abs, t1, t2):
    if fluid.is_gas:
        return 0.5 * (gas_density(fluid, p1_abs, t1) + gas_density(fluid, p2_abs, t2))
    return 0.5 * (float(fluid.get_density(t1)) + float(fluid.get_density(t2)))


def momentum_terms(fluid, mdot, p1_abs, p2_abs, h1, h2, t1, t2, d_m, length_m, lam, zeta):
    """Return (static part, friction part) in bar of the documented momentum law for one section:
    residual = static - friction with static = p1 - p2 + rho*g*(h1-h2)/1e5."""
    rho = mean_density(fluid, p1_abs, p2_abs, t1, t2)
    static = p1_abs - p2_abs + rho * G * (h1 - h2) / P_CONV
    a = area(d_m)
    fterm = (lam * length_m / d_m if length_m > 0 else 0.0) + zeta
    if fluid.is_gas:
        rho_n = float(fluid.get_density(T_N))
        pm = mean_pressure(p1_abs, p2_abs)
        kfac = float(fluid.get_compressibility(pm))
        tm = 0.5 * (t1 + t2)
        fric = P_N / (T_N * P_CONV * rho_n * a * a) * kfac * fterm * mdot * abs(mdot) * tm / (p1_abs + p2_abs)
    else:
        fric = fterm * mdot * abs(mdot) / (2.0 * rho * a * a * P_CONV)
    return static, fric, rho


def normfactor(fluid, p_abs, t_k):
    return P_N * t_k * float(fluid.get_compressibility(p_abs)) / (T_N * p_abs)
