"""Execution-local monitors: oracles evaluated on one returned pipeflow solution.

Every monitor takes the real net after a real ``pipeflow`` call and an ``Obs`` accumulator and
adds violations (tagged with a mechanism), observation counters and maxima.  They never look at a
transient state: they run after return.
"""
import math

import numpy as np
import pandas as pd

from pvmon import physics as ph
from pvmon.netgen import BRANCH_TABLES

FROM_TO = {
    "pipe": ("from_junction", "to_junction"), "valve": ("junction", "element"),
    "pump": ("from_junction", "to_junction"), "compressor": ("from_junction", "to_junction"),
    "flow_control": ("from_junction", "to_junction"), "press_control": ("from_junction", "to_junction"),
    "heat_exchanger": ("from_junction", "to_junction"), "heat_consumer": ("from_junction", "to_junction"),
    "circ_pump_mass": ("return_junction", "flow_junction"),
    "circ_pump_pressure": ("return_junction", "flow_junction"),
}


class Obs:
    def __init__(self):
        self.violations = []
        self.counters = {}
        self.maxima = {}

    def count(self, key, n=1):
        self.counters[key] = self.counters.get(key, 0) + int(n)

    def maxi(self, key, val):
        if val is None:
            return
        val = float(val)
        if math.isnan(val):
            return
        if key not in self.maxima or val > self.maxima[key]:
            self.maxima[key] = val

    def violate(self, tag, msg, **witness):
        # keep at most a handful of witnesses per tag per execution
        if sum(1 for v in self.violations if v["tag"] == tag) < 3:
            self.violations.append({"tag": tag, "msg": msg, "witness": witness})
        self.count("violations_raw")

    def merge(self, other):
        for v in other.violations:
            self.violations.append(v)
        for k, v in other.counters.items():
            self.count(k, v)
        for k, v in other.maxima.items():
            self.maxi(k, v)

    def record(self):
        return {"violations": self.violations, "counters": self.counters, "maxima": self.maxima}


def has(net, table):
    return table in net and isinstance(net[table], pd.DataFrame) and len(net[table]) > 0


def name_of(net, table, idx):
    try:
        n = net[table].at[idx, "name"]
        return "%s[%s]%s" % (table, idx, "" if n is None else "=%s" % n)
    except Exception:
        return "%s[%s]" % (table, idx)


# ------------------------------------------------------------------------------------------------
# incidence rebuilt from the element tables alone
# ------------------------------------------------------------------------------------------------

def incidence(net):
    """List of (table, idx, from_key, to_key); keys are ('j', label) or ('v', junction, pipe)."""
    pi_from, pi_to = {}, {}  # pipe label -> virtual node key replacing its from / to end
    inc = []
    if has(net, "valve"):
        v = net.valve
        for idx, ju, el, et in zip(v.index, v.junction.values, v.element.values, v.et.values):
            if et == "pi":
                key = ("v", int(ju), int(el))
                if has(net, "pipe") and el in net.pipe.index:
                    if int(net.pipe.at[el, "from_junction"]) == int(ju):
                        pi_from[int(el)] = key
                    else:
                        pi_to[int(el)] = key
                inc.append(("valve", idx, ("j", int(ju)), key))
            else:
                inc.append(("valve", idx, ("j", int(ju)), ("j", int(el))))
    for t in BRANCH_TABLES:
        if t == "valve" or not has(net, t):
            continue
        fc, tc = FROM_TO[t]
        for idx, f, to in zip(net[t].index, net[t][fc].values, net[t][tc].values):
            fk, tk = ("j", int(f)), ("j", int(to))
            if t == "pipe":
                fk = pi_from.get(int(idx), fk)
                tk = pi_to.get(int(idx), tk)
            inc.append((t, idx, fk, tk))
    return inc


def _res(net, table, idx, col):
    r = net.get("res_" + table)
    if r is None or col not in r.columns or idx not in r.index:
        return float("nan")
    return float(r.at[idx, col])


# ------------------------------------------------------------------------------------------------
# C01 mass conservation
# ------------------------------------------------------------------------------------------------

def mon_c01(net, obs, final_alpha=1.0, tol_m=1e-5):
    p = net.res_junction.p_bar
    supplied = set(int(i) for i in p.index[p.notna()])
    terms = {}  # node key -> list of signed inflows

    def add(key, val, what):
        if val is None or math.isnan(val):
            return
        terms.setdefault(key, []).append((val, what))

    inc = incidence(net)
    for t, idx, fk, tk in inc:
        mf = _res(net, t, idx, "mdot_from_kg_per_s")
        mt = _res(net, t, idx, "mdot_to_kg_per_s")
        add(fk, -mf, "%s[%s].from" % (t, idx))
        add(tk, -mt, "%s[%s].to" % (t, idx))
        if not math.isnan(mf) and not math.isnan(mt):
            obs.count("branch_end_pairs")
            d = abs(mf + mt)
            obs.maxi("max_abs_mdot_from_plus_to", d)
            if d > 1e-10 * (1 + abs(mf)) + (tol_m * (1 - final_alpha) / final_alpha if final_alpha < 1 else 0):
                obs.violate("branch_leaks_mass", "%s: mdot_from + mdot_to = %.3e" % (name_of(net, t, idx), mf + mt),
                            element=name_of(net, t, idx), mdot_from=mf, mdot_to=mt)
    feed_total = cons_total = 0.0
    abs_total = 0.0
    for t, sign in (("sink", -1.0), ("mass_storage", -1.0), ("source", 1.0), ("ext_grid", -1.0)):
        if not has(net, t) or "res_" + t not in net:
            continue
        for idx, ju in zip(net[t].index, net[t].junction.values):
            m = _res(net, t, idx, "mdot_kg_per_s")
            if math.isnan(m):
                continue
            add(("j", int(ju)), sign * m, "%s[%s]" % (t, idx))
            if int(ju) in supplied:
                abs_total += abs(m)
                if t == "ext_grid":
                    feed_total += -m
                else:
                    cons_total += -sign * m
    for key, lst in terms.items():
        if key[0] == "j" and key[1] not in supplied:
            continue
        s = sum(v for v, _ in lst)
        mag = sum(abs(v) for v, _ in lst)
        deg = len(lst)
        bound = 1e-10 * (1 + mag)
        if final_alpha < 1:
            bound += deg * tol_m * (1 - final_alpha) / final_alpha
        kind = "virtual_pi_valve_node" if key[0] == "v" else (
            "junction_deg>=3" if deg >= 3 else "junction_deg<3")
        obs.count("balances_" + kind)
        if mag > 0:
            obs.count("balances_nonzero_flow")
        obs.maxi("max_abs_imbalance_kg_per_s", abs(s))
        if abs(s) > bound:
            obs.violate("nodal_imbalance", "imbalance %.3e kg/s at %s (bound %.1e)" % (s, key, bound),
                        node=list(key), imbalance=s, terms=[(w, v) for v, w in lst][:12])
    glob = feed_total - cons_total
    obs.count("global_balances")
    obs.maxi("max_abs_global_imbalance_kg_per_s", abs(glob))
    gb = 1e-10 * (1 + abs_total)
    if final_alpha < 1:
        gb += len(supplied) * tol_m * (1 - final_alpha) / final_alpha
    if abs(glob) > gb:
        obs.violate("global_imbalance", "total feed-in %.6g != consumption - injection %.6g" % (feed_total, cons_total),
                    feed_in=feed_total, consumption_minus_injection=cons_total)
    return len(supplied)
