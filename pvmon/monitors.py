"""Execution-local monitors: oracles evaluated on one returned pipeflow solution.

Every monitor takes the real net after a real ``pipeflow`` call and an ``Obs`` accumulator and
adds violations (tagged with a mechanism), observation counters and maxima.  They never look at a
transient state: they run after return.
"""
import math

import numpy as np
import pandas as pd

from pvmon import physics as ph
from pvmon.netgen import BRANCH_TABLES

FROM_TO = {
    "pipe": ("from_junction", "to_junction"), "valve": ("junction", "element"),
    "pump": ("from_junction", "to_junction"), "compressor": ("from_junction", "to_junction"),
    "flow_control": ("from_junction", "to_junction"), "press_control": ("from_junction", "to_junction"),
    "heat_exchanger": ("from_junction", "to_junction"), "heat_consumer": ("from_junction", "to_junction"),
    "circ_pump_mass": ("return_junction", "flow_junction"),
    "circ_pump_pressure": ("return_junction", "flow_junction"),
}


class Obs:
    def __init__(self):
        self.violations = []
        self.counters = {}
        self.maxima = {}

    def count(self, key, n=1):
        self.counters[key] = self.counters.get(key, 0) + int(n)

    def maxi(self, key, val):
        if val is None:
            return
        val = float(val)
        if math.isnan(val):
            return
        if key not in self.maxima or val > self.maxima[key]:
            self.maxima[key] = val

    def violate(self, tag, msg, **witness):
        # keep at most a handful of witnesses per tag per execution
        if sum(1 for v in self.violations if v["tag"] == tag) < 3:
            self.violations.append({"tag": tag, "msg": msg, "witness": witness})
        self.count("violations_raw")

    def merge(self, other):
        for v in other.violations:
            self.violations.append(v)
        for k, v in other.counters.items():
            self.count(k, v)
        for k, v in other.maxima.items():
            self.maxi(k, v)

    def record(self):
        from pvmon import compare
        for k, v in compare.STATS.items():      # comparisons refused by the comparison layer itself (counted, never silent)
            self.counters[k] = self.counters.get(k, 0) + v
        compare.STATS.clear()
        return {"violations": self.violations, "counters": self.counters, "maxima": self.maxima}


def has(net, table):
    return table in net and isinstance(net[table], pd.DataFrame) and len(net[table]) > 0


def name_of(net, table, idx):
    try:
        n = net[table].at[idx, "name"]
        return "%s[%s]%s" % (table, idx, "" if n is None else "=%s" % n)
    except Exception:
        return "%s[%s]" % (table, idx)


# ------------------------------------------------------------------------------------------------
# incidence rebuilt from the element tables alone
# ------------------------------------------------------------------------------------------------

def incidence(net):
    """List of (table, idx, from_key, to_key); keys are ('j', label) or ('v', junction, pipe)."""
    pi_from, pi_to = {}, {}  # pipe label -> virtual node key replacing its from / to end
    inc = []
    if has(net, "valve"):
        v = net.valve
        for idx, ju, el, et in zip(v.index, v.junction.values, v.element.values, v.et.values):
            if et == "pi":
                key = ("v", int(ju), int(el))
                if has(net, "pipe") and el in net.pipe.index:
                    if int(net.pipe.at[el, "from_junction"]) == int(ju):
                        pi_from[int(el)] = key
                    else:
                        pi_to[int(el)] = key
                inc.append(("valve", idx, ("j", int(ju)), key))
            else:
                inc.append(("valve", idx, ("j", int(ju)), ("j", int(el))))
    tables = dict(FROM_TO)
    try:   # components added by users / converters (e.g. the STANET valve_pipe) are branch components too
        from pandapipes.component_models.abstract_models.branch_models import BranchComponent
        for comp in net.component_list:
            if issubclass(comp, BranchComponent) and comp.table_name() not in tables:
                tables[comp.table_name()] = tuple(comp.from_to_node_cols())
    except Exception:
        pass
    for t in list(BRANCH_TABLES) + [x for x in tables if x not in BRANCH_TABLES]:
        if t == "valve" or not has(net, t):
            continue
        fc, tc = tables[t]
        for idx, f, to in zip(net[t].index, net[t][fc].values, net[t][tc].values):
            fk, tk = ("j", int(f)), ("j", int(to))
            if t == "pipe":
                fk = pi_from.get(int(idx), fk)
                tk = pi_to.get(int(idx), tk)
            inc.append((t, idx, fk, tk))
    return inc


def _res(net, table, idx, col):
    r = net.get("res_" + table)
    if r is None or col not in r.columns or idx not in r.index:
        return float("nan")
    return float(r.at[idx, col])


# ------------------------------------------------------------------------------------------------
# C01 mass conservation
# ------------------------------------------------------------------------------------------------

def mon_c01(net, obs, final_alpha=1.0, tol_m=1e-5):
    p = net.res_junction.p_bar
    supplied = set(int(i) for i in p.index[p.notna()])
    terms = {}  # node key -> list of signed inflows

    def add(key, val, what):
        if val is None or math.isnan(val):
            return
        terms.setdefault(key, []).append((val, what))

    inc = incidence(net)
    for t, idx, fk, tk in inc:
        mf = _res(net, t, idx, "mdot_from_kg_per_s")
        mt = _res(net, t, idx, "mdot_to_kg_per_s")
        add(fk, -mf, "%s[%s].from" % (t, idx))
        add(tk, -mt, "%s[%s].to" % (t, idx))
        if not math.isnan(mf) and not math.isnan(mt):
            obs.count("branch_end_pairs")
            d = abs(mf + mt)
            obs.maxi("max_abs_mdot_from_plus_to", d)
            if d > 1e-10 * (1 + abs(mf)) + (tol_m * (1 - final_alpha) / final_alpha if final_alpha < 1 else 0):
                obs.violate("branch_leaks_mass", "%s: mdot_from + mdot_to = %.3e" % (name_of(net, t, idx), mf + mt),
                            element=name_of(net, t, idx), mdot_from=mf, mdot_to=mt)
    feed_total = cons_total = 0.0
    abs_total = 0.0
    for t, sign in (("sink", -1.0), ("mass_storage", -1.0), ("source", 1.0), ("ext_grid", -1.0)):
        if not has(net, t) or "res_" + t not in net:
            continue
        for idx, ju in zip(net[t].index, net[t].junction.values):
            m = _res(net, t, idx, "mdot_kg_per_s")
            if math.isnan(m):
                continue
            add(("j", int(ju)), sign * m, "%s[%s]" % (t, idx))
            if int(ju) in supplied:
                abs_total += abs(m)
                if t == "ext_grid":
                    feed_total += -m
                else:
                    cons_total += -sign * m
    for key, lst in terms.items():
        if key[0] == "j" and key[1] not in supplied:
            continue
        s = sum(v for v, _ in lst)
        mag = sum(abs(v) for v, _ in lst)
        deg = len(lst)
        bound = 1e-10 * (1 + mag)
        if final_alpha < 1:
            bound += deg * tol_m * (1 - final_alpha) / final_alpha
        kind = "virtual_pi_valve_node" if key[0] == "v" else (
            "junction_deg>=3" if deg >= 3 else "junction_deg<3")
        obs.count("balances_" + kind)
        if mag > 0:
            obs.count("balances_nonzero_flow")
        obs.maxi("max_abs_imbalance_kg_per_s", abs(s))
        if abs(s) > bound:
            obs.violate("nodal_imbalance", "imbalance %.3e kg/s at %s (bound %.1e)" % (s, key, bound),
                        node=list(key), imbalance=s, terms=[(w, v) for v, w in lst][:12])
    glob = feed_total - cons_total
    obs.count("global_balances")
    obs.maxi("max_abs_global_imbalance_kg_per_s", abs(glob))
    gb = 1e-10 * (1 + abs_total)
    if final_alpha < 1:
        gb += len(supplied) * tol_m * (1 - final_alpha) / final_alpha
    if abs(glob) > gb:
        obs.violate("global_imbalance", "total feed-in %.6g != consumption - injection %.6g" % (feed_total, cons_total),
                    feed_in=feed_total, consumption_minus_injection=cons_total)
    return len(supplied)


# ------------------------------------------------------------------------------------------------
# C02 momentum law per flowing branch
# ------------------------------------------------------------------------------------------------

def _pit_sections(net, pipe_label, thermal=False):
    """Section rows of one pipe from the solver's internal table (only used for interior nodes of
    multi-section pipes, which no public result table exposes for arbitrary index labels)."""
    from pandapipes.idx_branch import ELEMENT_IDX, FROM_NODE, TO_NODE, MDOTINIT, TOUTINIT, TABLE_IDX
    from pandapipes.idx_node import PINIT, TINIT
    from pandapipes.pf.pipeflow_setup import get_lookup
    f, t = get_lookup(net, "branch", "from_to")["pipe"]
    bp = net["_pit"]["branch"][f:t]
    npit = net["_pit"]["node"]
    rows = bp[bp[:, ELEMENT_IDX] == pipe_label]
    out = []
    for r in rows:
        fn, tn = int(r[FROM_NODE]), int(r[TO_NODE])
        # with a thermal calculation the fluid enters a reverse-flow section at its to-node: inlet temperature = upstream node
        up = tn if (thermal and float(r[MDOTINIT]) < 0) else fn
        out.append(dict(p1=float(npit[fn, PINIT]), p2=float(npit[tn, PINIT]), t1=float(npit[up, TINIT]),
                        t2=float(r[TOUTINIT]), mdot=float(r[MDOTINIT])))
    return out


def _law_bound(fric, mdot, tight, tol_p, tol_m, tol_res=1e-3):
    if tight:
        return 1e-7 + 1e-6 * abs(fric)
    # The solver accepts a state whose residual is within tol_res and whose last changes are within tol_p / tol_m;
    # with an inexact Jacobian (Colebrook derivative for reverse flow) the residual need not shrink further.
    dm = abs(2 * fric / mdot) * tol_m if mdot else 0.0
    return 1e-7 + 1e-6 * abs(fric) + 2 * tol_p + dm + tol_res


MEAN_COLUMNS = ("lambda", "reynolds", "v_mean_m_per_s", "vdot_m3_per_s", "vdot_norm_m3_per_s")


def mon_c02(net, obs, opts):
    fluid = net.fluid
    gas = bool(fluid.is_gas)
    model = opts.get("friction_model", "nikuradse")
    tol_p, tol_m = opts.get("tol_p", 1e-5), opts.get("tol_m", 1e-5)
    tol_res = opts.get("tol_res", 1e-3)
    thermal = opts.get("mode", "hydraulics") in ("sequential", "bidirectional", "heat")
    tight = tol_p <= 1e-8 and tol_m <= 1e-8 and tol_res <= 1e-8
    cb_tol = opts.get("tolerance_colebrook", 1e-4) if model == "colebrook" else 0.0
    pj = net.res_junction.p_bar
    hj = net.junction.height_m
    inc = {(t, idx): (fk, tk) for t, idx, fk, tk in incidence(net)}
    eta_of = lambda tm: float(fluid.get_viscosity(tm))
    rho_n = float(fluid.get_density(ph.T_N))

    def rel(a, b):
        return abs(a - b) / max(abs(a), abs(b), 1e-300)

    def check_section(tag_el, m, p1b, p2b, h1, h2, t1, t2, d, L, k, zeta, want_lambda=True, zeta_alt=None):
        p1, p2 = p1b + float(ph.p_amb(h1)), p2b + float(ph.p_amb(h2))
        eta = eta_of(0.5 * (t1 + t2))
        re = ph.reynolds(m, d, eta)
        regime = "zero" if re < 1e-9 else ("laminar" if re < 2300 else "turbulent")
        lam = ph.friction_factor(model, re, d, k, gas) if (re >= 1e-9 and want_lambda and L > 0) else 0.0
        static, fric, rho = ph.momentum_terms(fluid, m, p1, p2, h1, h2, t1, t2, d, L, lam, zeta)
        res = static - fric
        bound = _law_bound(fric, m, tight, tol_p, tol_m, tol_res)
        if cb_tol and L > 0 and lam > 0:
            bound += abs(fric) * cb_tol / lam
        obs.count("law_sections_%s_%s" % ("gas" if gas else "liquid", regime))
        if m < 0:
            obs.count("law_sections_reverse_flow")
        if abs(h1 - h2) > 1:
            obs.count("law_sections_height_difference")
        if zeta > 0:
            obs.count("law_sections_with_loss_coefficient")
        obs.maxi("max_abs_law_residual_bar" + ("_tight" if tight else "_default_tol"), abs(res))
        obs.maxi("max_friction_term_bar", abs(fric))
        if abs(res) > bound and zeta_alt is not None:
            _, fric_alt, _ = ph.momentum_terms(fluid, m, p1, p2, h1, h2, t1, t2, d, L, lam, zeta_alt)
            if abs(static - fric_alt) <= _law_bound(fric_alt, m, tight, tol_p, tol_m, tol_res) + (
                    abs(fric_alt) * cb_tol / lam if cb_tol and lam > 0 else 0):
                obs.violate("loss_coefficient_repeated_per_section",
                            "%s: the pipe's loss coefficient %.4g acts once per section (n sections lose n*zeta): "
                            "residual with the documented lumped coefficient %.3e bar, with zeta per section %.1e bar"
                            % (tag_el, zeta_alt, res, static - fric_alt), element=tag_el, zeta=zeta_alt, mdot=m,
                            residual_lumped=res, residual_per_section=static - fric_alt)
                return re, lam, rho, p1, p2
        if abs(res) > bound:
            obs.violate("momentum_law_" + tag_el.split("[")[0],
                        "%s: momentum residual %.3e bar (bound %.1e, friction term %.3e bar)" % (tag_el, res, bound, fric),
                        element=tag_el, residual_bar=res, static_bar=static, friction_bar=fric, mdot=m, re=re,
                        lam=lam, zeta=zeta, sections_law="per section")
        return re, lam, rho, p1, p2

    pending = []
    # ---- pipes
    if has(net, "pipe") and "res_pipe" in net:
        P, R = net.pipe, net.res_pipe
        for idx in P.index:
            if not bool(P.at[idx, "in_service"]):
                continue
            m_from = float(R.at[idx, "mdot_from_kg_per_s"])
            if math.isnan(m_from):
                continue
            el = name_of(net, "pipe", idx)
            fj, tj = int(P.at[idx, "from_junction"]), int(P.at[idx, "to_junction"])
            fk, tk = inc[("pipe", idx)]
            for key, col, jn in ((fk, "p_from_bar", fj), (tk, "p_to_bar", tj)):
                if key[0] == "j":
                    obs.count("end_pressure_vs_junction")
                    a, b = float(R.at[idx, col]), float(pj.at[jn])
                    if not (a == b or abs(a - b) <= 1e-12 * max(1, abs(b))):
                        obs.violate("branch_end_pressure_differs_from_junction",
                                    "%s.%s=%r but res_junction.p_bar[%d]=%r" % (el, col, a, jn, b), element=el)
            n = int(P.at[idx, "sections"])
            d = float(P.at[idx, "inner_diameter_mm"]) / 1000.0
            L = float(P.at[idx, "length_km"]) * 1000.0
            k = float(P.at[idx, "k_mm"]) / 1000.0
            zeta = float(P.at[idx, "loss_coefficient"])
            h1, h2 = float(hj.at[fj]), float(hj.at[tj])
            if n == 1:
                t_in = float(R.at[idx, "t_to_k"]) if (thermal and m_from < 0) else float(R.at[idx, "t_from_k"])
                secs = [dict(p1=float(R.at[idx, "p_from_bar"]), p2=float(R.at[idx, "p_to_bar"]),
                             t1=t_in, t2=float(R.at[idx, "t_outlet_k"]), mdot=m_from)]
            else:
                secs = _pit_sections(net, idx, thermal)
                if len(secs) != n:
                    obs.violate("pipe_section_count", "%s has %d pit sections, table says %d" % (el, len(secs), n))
                    continue
                obs.count("multi_section_pipes")
            res_, lams, vs, vdots, lam_spread = [], [], [], [], []
            for s_i, s in enumerate(secs):
                ha = h1 + (h2 - h1) * s_i / n
                hb = h1 + (h2 - h1) * (s_i + 1) / n
                # the documented lumped loss coefficient belongs to the pipe once: zeta/n per section
                re, lam, rho, p1, p2 = check_section(el + (".s%d" % s_i if n > 1 else ""), s["mdot"], s["p1"], s["p2"],
                                                     ha, hb, s["t1"], s["t2"], d, L / n, k, zeta / n,
                                                     zeta_alt=zeta if (n > 1 and zeta > 0) else None)
                res_.append(re)
                lams.append(lam)
                if re >= 1e-9:
                    # sensitivity of the friction factor to the admissible slack in the mass flow (Swamee-Jain and
                    # Colebrook are singular at very small Reynolds numbers)
                    rt_ = 1e-8 + 4 * tol_m / max(abs(s["mdot"]), 1e-300)
                    try:
                        lam_spread.append(abs(ph.friction_factor(model, re * (1 + rt_), d, k, gas)
                                              - ph.friction_factor(model, re * max(1 - rt_, 1e-3), d, k, gas)))
                    except (ValueError, ZeroDivisionError, OverflowError):
                        lam_spread.append(float("inf"))
                a = ph.area(d)
                if gas:
                    vn = s["mdot"] / (rho_n * a)
                    pm = ph.mean_pressure(p1, p2) if abs(p1 - p2) > 1e-8 + 1e-5 * abs(p2) else p1
                    vs.append(vn * ph.normfactor(fluid, pm, 0.5 * (s["t1"] + s["t2"])))
                    vdots.append(s["mdot"] / rho_n)
                    s["nf1"] = ph.normfactor(fluid, p1, s["t1"])
                    s["nf2"] = ph.normfactor(fluid, p2, s["t2"])
                    s["vn"] = vn
                else:
                    vs.append(s["mdot"] / (rho * a))
                    vdots.append(s["mdot"] / rho)
            m_abs = max(abs(m_from), 1e-300)
            rt = 1e-8 + 4 * tol_m / m_abs
            exp = {"reynolds": float(np.mean(res_)), "v_mean_m_per_s": float(np.mean(vs)),
                   ("vdot_norm_m3_per_s" if gas else "vdot_m3_per_s"): float(np.mean(vdots))}
            if max(res_) >= 1e-9:
                exp["lambda"] = float(np.mean(lams))
            if gas:
                exp.update(v_from_m_per_s=secs[0]["vn"] * secs[0]["nf1"], v_to_m_per_s=secs[-1]["vn"] * secs[-1]["nf2"],
                           normfactor_from=secs[0]["nf1"], normfactor_to=secs[-1]["nf2"])
            for col, want in exp.items():
                got = float(R.at[idx, col])
                obs.count("derived_quantities_checked")
                tol = rt + (cb_tol / max(want, 1e-12) if col == "lambda" else 0.0)
                if col == "lambda" and min(res_) < 1e-9:
                    continue
                if col == "lambda" and rt > 1e-3:
                    # the reported friction factor belongs to the previous iterate; with a relative flow slack this large
                    # (tiny flow at default tolerances) it says nothing, in particular near the singularity of Swamee-Jain
                    obs.count("lambda_not_judged_flow_slack_too_large")
                    continue
                extra = float(np.mean(lam_spread)) if (col == "lambda" and lam_spread) else 0.0
                pending.append((el, col, got, want, tol, extra, n))

    # Section means of a table are formed by the solver as differences of a running sum over all its pipes, so the
    # absolute accuracy of one pipe's mean is eps * (sum over the table), e.g. next to a creeping-flow pipe with a
    # huge laminar friction factor.
    group_sum = {}
    for el, col, got, want, tol, extra, n in pending:
        if col in MEAN_COLUMNS and not math.isnan(want):
            group_sum[col] = group_sum.get(col, 0.0) + n * abs(want)
    for el, col, got, want, tol, extra, n in pending:
        slack = 1e-14 + extra + (16 * 2.3e-16 * group_sum.get(col, 0.0) if col in MEAN_COLUMNS else 0.0)
        if not (rel(got, want) <= tol or abs(got - want) <= slack):
            obs.violate("derived_" + col, "%s: reported %s=%.10g, from reported mdot/p/T follows %.10g"
                        % (el, col, got, want), element=el, column=col, reported=got, expected=want, rtol=tol)
        else:
            obs.maxi("max_rel_dev_" + col, rel(got, want) if want else 0.0)

    # ---- valves and heat exchangers: zero length, lumped loss coefficient only
    for t in ("valve", "heat_exchanger"):
        if not has(net, t) or "res_" + t not in net:
            continue
        T, R = net[t], net["res_" + t]
        for idx in T.index:
            m = float(R.at[idx, "mdot_from_kg_per_s"])
            if math.isnan(m):
                continue
            if t == "valve" and not bool(T.at[idx, "opened"]):
                continue
            if t == "heat_exchanger" and not bool(T.at[idx, "in_service"]):
                continue
            el = name_of(net, t, idx)
            fk, tk = inc[(t, idx)]
            h1 = float(hj.at[fk[1]])
            h2 = float(hj.at[tk[1]]) if tk[0] == "j" else h1
            d = float(T.at[idx, "inner_diameter_mm"]) / 1000.0
            zeta = float(T.at[idx, "loss_coefficient"])
            t_in = float(R.at[idx, "t_to_k"]) if (thermal and m < 0 and tk[0] == "j") else float(R.at[idx, "t_from_k"])
            re, lam, rho, p1, p2 = check_section(el, m, float(R.at[idx, "p_from_bar"]), float(R.at[idx, "p_to_bar"]),
                                                 h1, h2, t_in, float(R.at[idx, "t_outlet_k"]),
                                                 d, 0.0, 1e-3, zeta, want_lambda=False)
            obs.count("law_" + t)
            if fk[0] == "j":
                a, b = float(R.at[idx, "p_from_bar"]), float(pj.at[fk[1]])
                obs.count("end_pressure_vs_junction")
                if not abs(a - b) <= 1e-12 * max(1, abs(b)):
                    obs.violate("branch_end_pressure_differs_from_junction", "%s.p_from_bar=%r vs junction %r" % (el, a, b))
            if t == "valve":
                rt = 1e-8 + 4 * tol_m / max(abs(m), 1e-300)
                a = ph.area(d)
                if gas:
                    pm = ph.mean_pressure(p1, p2) if abs(p1 - p2) > 1e-8 + 1e-5 * abs(p2) else p1
                    tm = 0.5 * (float(R.at[idx, "t_from_k"]) + float(R.at[idx, "t_outlet_k"]))
                    want_v = m / (rho_n * a) * ph.normfactor(fluid, pm, tm)
                else:
                    want_v = m / (rho * a)
                for col, want in (("reynolds", re), ("v_mean_m_per_s", want_v)):
                    got = float(R.at[idx, col])
                    obs.count("derived_quantities_checked")
                    if not (rel(got, want) <= rt or abs(got - want) <= 1e-14):
                        obs.violate("derived_" + col, "%s: reported %s=%.10g, expected %.10g" % (el, col, got, want),
                                    element=el, column=col, reported=got, expected=want)


# ------------------------------------------------------------------------------------------------
# C03 prescribed pressures, flows, lifts and ratios
# ------------------------------------------------------------------------------------------------

def _poly_curve(reg_par, vdot):
    """Pump characteristic written from the documentation: regression polynomial in m3/h, never
    negative, zero for reverse flow."""
    if vdot < 0:
        return 0.0
    x = vdot * 3600.0
    n = len(reg_par)
    return max(0.0, sum(float(c) * x ** (n - 1 - i) for i, c in enumerate(reg_par)))


def mon_c03(net, obs, opts):
    fluid = net.fluid
    gas = bool(fluid.is_gas)
    tol_p, tol_m = opts.get("tol_p", 1e-5), opts.get("tol_m", 1e-5)
    tight = tol_p <= 1e-8 and tol_m <= 1e-8
    lift_tol = 1e-7 if tight else 4 * tol_p + 1e-7
    pj = net.res_junction.p_bar
    J = net.junction

    def ok_rel(a, b, tol=1e-9):
        return abs(a - b) <= tol * max(1.0, abs(a), abs(b))

    # ---- fixed pressures
    fixed = {}
    if has(net, "ext_grid"):
        E = net.ext_grid
        for idx in E.index:
            if bool(E.at[idx, "in_service"]) and "p" in str(E.at[idx, "type"]):
                fixed.setdefault(int(E.at[idx, "junction"]), {"eg": [], "cp": []})["eg"].append(float(E.at[idx, "p_bar"]))
    for t in ("circ_pump_mass", "circ_pump_pressure"):
        if has(net, t):
            T = net[t]
            for idx in T.index:
                if bool(T.at[idx, "in_service"]):
                    fixed.setdefault(int(T.at[idx, "flow_junction"]), {"eg": [], "cp": []})["cp"].append(float(T.at[idx, "p_flow_bar"]))
    for j, d in fixed.items():
        if j not in pj.index or math.isnan(float(pj.at[j])) or not bool(J.at[j, "in_service"]):
            continue
        vals = d["eg"] + d["cp"]
        want = sum(vals) / len(vals)
        kind = "fixed_pressure_%s" % ("several" if len(vals) > 1 else ("ext_grid" if d["eg"] else "circ_pump"))
        obs.count(kind)
        got = float(pj.at[j])
        obs.maxi("max_abs_fixed_pressure_dev_bar", abs(got - want))
        if abs(got - want) > 1e-9 * max(1, abs(want)):
            obs.violate("fixed_pressure_not_met", "junction %d: p_bar=%.12g, prescribed (mean) %.12g" % (j, got, want),
                        junction=j, p_bar=got, prescribed=vals)
    # ---- pressure controllers
    if has(net, "press_control") and "res_press_control" in net:
        T, R = net.press_control, net.res_press_control
        for idx in T.index:
            if not (bool(T.at[idx, "in_service"]) and bool(T.at[idx, "control_active"])):
                continue
            if math.isnan(float(R.at[idx, "mdot_from_kg_per_s"])):
                continue
            cj = int(T.at[idx, "controlled_junction"])
            got, want = float(pj.at[cj]), float(T.at[idx, "controlled_p_bar"])
            obs.count("press_control_setpoints" + ("_remote" if cj != int(T.at[idx, "to_junction"]) else ""))
            if not ok_rel(got, want):
                obs.violate("press_control_setpoint_not_met", "%s: controlled junction %d has %.12g bar, set %.12g"
                            % (name_of(net, "press_control", idx), cj, got, want), p_bar=got, controlled_p_bar=want)
    # ---- prescribed mass flows
    for t, col, active_col in (("flow_control", "controlled_mdot_kg_per_s", "control_active"),
                               ("circ_pump_mass", "mdot_flow_kg_per_s", None)):
        if not has(net, t) or "res_" + t not in net:
            continue
        T, R = net[t], net["res_" + t]
        for idx in T.index:
            if not bool(T.at[idx, "in_service"]) or (active_col and not bool(T.at[idx, active_col])):
                continue
            got = float(R.at[idx, "mdot_from_kg_per_s"])
            if math.isnan(got):
                continue
            want = float(T.at[idx, col])
            obs.count("prescribed_flow_" + t)
            if not ok_rel(got, want, 1e-10):
                obs.violate("prescribed_flow_not_met", "%s: mdot_from=%.12g, set %.12g" % (name_of(net, t, idx), got, want),
                            mdot=got, setpoint=want)
    # ---- lifts: pressure circulation pump, compressor, pump
    hj = J.height_m

    def lift_of(R, idx, fj, tj):
        p1 = float(R.at[idx, "p_from_bar"]) + float(ph.p_amb(hj.at[fj]))
        p2 = float(R.at[idx, "p_to_bar"]) + float(ph.p_amb(hj.at[tj]))
        rho = ph.mean_density(fluid, p1, p2, float(R.at[idx, "t_from_k"]), float(R.at[idx, "t_outlet_k"]))
        return p1, p2, p2 - p1 - rho * ph.G * (float(hj.at[fj]) - float(hj.at[tj])) / ph.P_CONV, rho

    if has(net, "circ_pump_pressure") and "res_circ_pump_pressure" in net:
        T, R = net.circ_pump_pressure, net.res_circ_pump_pressure
        for idx in T.index:
            if not bool(T.at[idx, "in_service"]) or math.isnan(float(R.at[idx, "mdot_from_kg_per_s"])):
                continue
            p1, p2, lift, rho = lift_of(R, idx, int(T.at[idx, "return_junction"]), int(T.at[idx, "flow_junction"]))
            want = float(T.at[idx, "plift_bar"])
            obs.count("lift_circ_pump_pressure")
            obs.maxi("max_abs_lift_dev_bar", abs(lift - want))
            if abs(lift - want) > lift_tol:
                obs.violate("circ_pump_lift_not_met", "%s lifts %.10g bar, set %.10g" % (name_of(net, "circ_pump_pressure", idx), lift, want),
                            lift=lift, plift_bar=want)
    if has(net, "compressor") and "res_compressor" in net:
        T, R = net.compressor, net.res_compressor
        for idx in T.index:
            m = float(R.at[idx, "mdot_from_kg_per_s"])
            if not bool(T.at[idx, "in_service"]) or math.isnan(m):
                continue
            fj, tj = int(T.at[idx, "from_junction"]), int(T.at[idx, "to_junction"])
            p1, p2, lift, rho = lift_of(R, idx, fj, tj)
            ratio = float(T.at[idx, "pressure_ratio"])
            if abs(m) <= 4 * tol_m:
                obs.count("compressor_near_zero_flow_not_judged")
                continue
            want = p1 * (ratio - 1.0) if m > 0 else 0.0
            obs.count("compressor_forward" if m > 0 else "compressor_reverse")
            obs.maxi("max_abs_lift_dev_bar", abs(lift - want))
            if abs(lift - want) > lift_tol * max(1.0, ratio):
                obs.violate("compressor_ratio_not_met", "%s: corrected p_to/p_from = %.10g, ratio %.10g, mdot %.4g"
                            % (name_of(net, "compressor", idx), (p1 + lift) / p1, ratio, m), lift=lift, expected_lift=want)
    if has(net, "pump") and "res_pump" in net:
        T, R = net.pump, net.res_pump
        for idx in T.index:
            m = float(R.at[idx, "mdot_from_kg_per_s"])
            if not bool(T.at[idx, "in_service"]) or math.isnan(m):
                continue
            fj, tj = int(T.at[idx, "from_junction"]), int(T.at[idx, "to_junction"])
            p1, p2, lift, rho = lift_of(R, idx, fj, tj)
            dp = float(R.at[idx, "deltap_bar"])
            obs.count("pump_lift_momentum")
            if abs(lift - dp) > lift_tol:
                obs.violate("pump_lift_inconsistent", "%s: pressures show a lift of %.10g bar, deltap_bar=%.10g"
                            % (name_of(net, "pump", idx), lift, dp), lift=lift, deltap_bar=dp)
            reg = net.std_types["pump"][T.at[idx, "std_type"]].reg_par
            if gas:
                vdot = float(R.at[idx, "vdot_norm_m3_per_s"]) * float(R.at[idx, "normfactor_from"])
                dv = 4 * tol_m / float(fluid.get_density(ph.T_N)) * float(R.at[idx, "normfactor_from"])
            else:
                vdot = float(R.at[idx, "vdot_m3_per_s"])
                dv = 4 * tol_m / rho
            want = _poly_curve(reg, vdot)
            slack = abs(_poly_curve(reg, vdot + dv) - _poly_curve(reg, max(vdot - dv, 0))) + 1e-9 + 1e-9 * abs(want)
            if abs(m) <= 4 * tol_m:
                obs.count("pump_near_zero_flow_not_judged")
                continue
            obs.count("pump_curve_forward" if m > 0 else "pump_curve_reverse")
            obs.maxi("max_abs_pump_curve_dev_bar", abs(dp - want))
            if abs(dp - want) > slack:
                # classification: does the lift match the curve at mdot / rho(273.15 K)?
                alt = _poly_curve(reg, m / float(fluid.get_density(ph.T_N))) if not gas else None
                tag = "pump_curve_at_normal_density" if (alt is not None and abs(dp - alt) <= slack) else "pump_curve_not_met"
                obs.violate(tag, "%s: deltap_bar=%.8g but curve(reported volume flow %.6g m3/s)=%.8g"
                            % (name_of(net, "pump", idx), dp, vdot, want), deltap_bar=dp, vdot=vdot, curve=want,
                            curve_at_normal_density=alt, t_from_k=float(R.at[idx, "t_from_k"]))
    # ---- loads report mdot * scaling
    for t in ("sink", "source", "mass_storage"):
        if not has(net, t) or "res_" + t not in net:
            continue
        T, R = net[t], net["res_" + t]
        for idx in T.index:
            ju = int(T.at[idx, "junction"])
            if not bool(T.at[idx, "in_service"]) or math.isnan(float(pj.at[ju])) or not bool(J.at[ju, "in_service"]):
                continue
            m = float(T.at[idx, "mdot_kg_per_s"])
            if math.isnan(m):
                continue
            want = m * float(T.at[idx, "scaling"])
            got = float(R.at[idx, "mdot_kg_per_s"])
            obs.count("load_reports_" + t)
            if not (got == want or abs(got - want) <= 1e-12 * max(1, abs(want))):
                obs.violate("load_not_reported", "%s reports %.12g, mdot*scaling=%.12g" % (name_of(net, t, idx), got, want),
                            reported=got, expected=want)


# ------------------------------------------------------------------------------------------------
# C10 thermal laws / C11 heat duties
# ------------------------------------------------------------------------------------------------

def thermal_region(net, zero=1e-10):
    """Nodes that take part in the thermal calculation: reachable from a temperature-fixing feeder (t / pt ext grid in service,
    flow junction of an in-service circulation pump) over branches that carry flow.  A part of the network that is fed by
    pressure-only grids has no temperature source: it is calculated hydraulically but not thermally."""
    start = set()
    if has(net, "ext_grid"):
        E = net.ext_grid
        for idx in E.index:
            if bool(E.at[idx, "in_service"]) and "t" in str(E.at[idx, "type"]):
                start.add(("j", int(E.at[idx, "junction"])))
    for t in ("circ_pump_mass", "circ_pump_pressure"):
        if has(net, t):
            for idx in net[t].index:
                if bool(net[t].at[idx, "in_service"]):
                    start.add(("j", int(net[t].at[idx, "flow_junction"])))
    adj = {}
    for t, idx, fk, tk in incidence(net):
        r = net.get("res_" + t)
        if r is None or idx not in r.index or "mdot_from_kg_per_s" not in r.columns:
            continue
        m = float(r.at[idx, "mdot_from_kg_per_s"])
        if math.isnan(m) or abs(m) <= zero:
            continue
        adj.setdefault(fk, []).append(tk)
        adj.setdefault(tk, []).append(fk)
    seen, todo = set(start), list(start)
    while todo:
        x = todo.pop()
        for y in adj.get(x, []):
            if y not in seen:
                seen.add(y)
                todo.append(y)
    return seen


def thermal_streams(net, zero=1e-9):
    """Per branch element with flow: dict(table, idx, up, down, m, tin, tout) using only result tables;
    the upstream end is chosen by the sign of the reported flow.  Branches outside the thermal calculation
    (see thermal_region) are left out."""
    out = []
    region = thermal_region(net)
    for t, idx, fk, tk in incidence(net):
        if fk not in region or tk not in region:
            continue
        r = net.get("res_" + t)
        if r is None or idx not in r.index or "t_outlet_k" not in r.columns:
            continue
        m = float(r.at[idx, "mdot_from_kg_per_s"])
        tout = float(r.at[idx, "t_outlet_k"])
        if math.isnan(m) or math.isnan(tout) or abs(m) <= zero:
            continue
        if m > 0:
            up, down, tin = fk, tk, float(r.at[idx, "t_from_k"])
        else:
            up, down, tin = tk, fk, float(r.at[idx, "t_to_k"])
        out.append(dict(table=t, idx=idx, up=up, down=down, m=abs(m), signed_m=m, tin=tin, tout=tout))
    return out


def _pipe_thermal_sections(net, pipe_label):
    from pandapipes.idx_branch import ELEMENT_IDX, FROM_NODE, TO_NODE, MDOTINIT, TOUTINIT
    from pandapipes.idx_node import TINIT
    from pandapipes.pf.pipeflow_setup import get_lookup
    f, t = get_lookup(net, "branch", "from_to")["pipe"]
    bp = net["_pit"]["branch"][f:t]
    npit = net["_pit"]["node"]
    rows = bp[bp[:, ELEMENT_IDX] == pipe_label]
    secs = []
    for r in rows:
        m = float(r[MDOTINIT])
        up = int(r[FROM_NODE]) if m >= 0 else int(r[TO_NODE])
        secs.append((abs(m), float(npit[up, TINIT]), float(r[TOUTINIT])))
    return secs


def mon_c10(net, obs, opts, passive=False):
    """Cooling law per flowing pipe section, energy-conserving mixing per junction, fixed feeds, bounds."""
    fluid = net.fluid
    cp = lambda x: float(fluid.get_heat_capacity(x))
    amb = float(opts.get("ambient_temperature", 293.15))
    tolT = float(opts.get("tol_T", 1e-3))
    tight = tolT <= 1e-7
    cool_tol = 1e-6 if tight else 20 * tolT
    streams = thermal_streams(net)
    by_el = {(s["table"], s["idx"]): s for s in streams}
    tj = net.res_junction.t_k
    # ---- cooling law
    if has(net, "pipe"):
        P = net.pipe
        for idx in P.index:
            s = by_el.get(("pipe", idx))
            if s is None or not bool(P.at[idx, "in_service"]):
                continue
            n = int(P.at[idx, "sections"])
            L = float(P.at[idx, "length_km"]) * 1000.0 / n
            do = float(P.at[idx, "outer_diameter_mm"])
            if math.isnan(do):
                do = float(P.at[idx, "inner_diameter_mm"])
            u = float(P.at[idx, "u_w_per_m2k"])
            text = float(P.at[idx, "text_k"])
            if math.isnan(text):
                text = amb
            secs = [(s["m"], s["tin"], s["tout"])] if n == 1 else _pipe_thermal_sections(net, idx)
            if n > 1:
                obs.count("cooling_multi_section_pipes")
                # the pipe-level outlet must be the outlet of the section the fluid leaves through
                last = secs[-1] if s["signed_m"] > 0 else secs[0]
                obs.count("pipe_outlet_vs_last_section")
                if abs(last[2] - s["tout"]) > 1e-9:
                    obs.violate("t_outlet_not_last_section_in_flow_direction",
                                "%s: t_outlet_k=%.9g, the section the fluid leaves through has %.9g (mdot %.3g)"
                                % (name_of(net, "pipe", idx), s["tout"], last[2], s["signed_m"]))
            for m, tin, tout in secs:
                if m <= 1e-9:
                    continue
                c = 0.5 * (cp(tin) + cp(tout))
                want = text + (tin - text) * math.exp(-u * math.pi * do / 1000.0 * L / (c * m))
                obs.count("cooling_sections_reverse" if s["signed_m"] < 0 else "cooling_sections_forward")
                if u > 0:
                    obs.count("cooling_sections_with_loss")
                obs.maxi("max_abs_cooling_residual_k" + ("" if tight else "_default_tol"), abs(want - tout))
                if abs(want - tout) > cool_tol:
                    obs.violate("cooling_law", "%s: section outlet %.9g K, cooling law gives %.9g K (Tin %.6g, Text %.5g, m %.4g)"
                                % (name_of(net, "pipe", idx), tout, want, tin, text, m), tout=tout, expected=want)
    # ---- mixing
    fixed_T = {}
    if has(net, "ext_grid"):
        E = net.ext_grid
        for idx in E.index:
            if bool(E.at[idx, "in_service"]):
                fixed_T.setdefault(int(E.at[idx, "junction"]), []).append(
                    float(E.at[idx, "t_k"]) if "t" in str(E.at[idx, "type"]) else None)
    for t in ("circ_pump_mass", "circ_pump_pressure"):
        if has(net, t):
            for idx in net[t].index:
                if bool(net[t].at[idx, "in_service"]):
                    fixed_T.setdefault(int(net[t].at[idx, "flow_junction"]), []).append(float(net[t].at[idx, "t_flow_k"]))
    creeping = {}
    for t, idx, fk, tk in incidence(net):
        if (t, idx) not in by_el:
            for end in (fk, tk):
                if end[0] == "j":
                    creeping[end[1]] = creeping.get(end[1], 0) + 1
    inflow = {}
    for s in streams:
        if s["down"][0] == "j":
            inflow.setdefault(s["down"][1], []).append(s)
    for j, lst in inflow.items():
        if j in fixed_T or math.isnan(float(tj.at[j])):
            continue
        tm = float(tj.at[j])
        right = sum(s["m"] * 0.5 * (cp(s["tout"]) + cp(tm)) * (s["tout"] - tm) for s in lst)
        scale = sum(s["m"] * cp(tm) * (abs(s["tout"] - tm) + 1e-3) for s in lst)
        obs.count("mixing_junctions_%s" % ("1_inflow" if len(lst) == 1 else ("2_inflows" if len(lst) == 2 else "3plus_inflows")))
        # branches whose flow is below the stream threshold (1e-9 kg/s) are left out above but may still carry that much at
        # any temperature of the network into the junction
        bound = (1e-6 if tight else 50 * tolT) * scale + 1e-6 + creeping.get(j, 0) * 1e-9 * cp(tm) * 200.0
        obs.maxi("max_rel_mixing_residual", abs(right) / scale)
        if abs(right) > bound:
            # classification: the heat capacity evaluated at a heat capacity
            code = sum(s["m"] * cp(0.5 * (cp(s["tout"]) + cp(tm))) * (s["tout"] - tm) for s in lst)
            tag = "mixing_weight_cp_of_cp" if abs(code) <= bound else "mixing_not_energy_conserving"
            obs.violate(tag, "junction %d: sum m*cp_mean*(T_in - T_mix) = %.4g W over %d inflows (scale %.3g W)"
                        % (j, right, len(lst), scale), junction=j, t_mix=tm,
                        inflows=[(s["table"], str(s["idx"]), s["m"], s["tout"]) for s in lst])
    # ---- fixed feeds
    for j, vals in fixed_T.items():
        vals = [v for v in vals if v is not None]
        if not vals or j not in tj.index or math.isnan(float(tj.at[j])):
            continue
        if len(set(vals)) > 1:
            obs.count("fixed_temperature_several_feeders_not_judged")
            continue
        # the feeder imposes its temperature on the fluid it feeds: judge when nothing else flows in
        if any(True for s in inflow.get(j, []) if s["table"] not in ("circ_pump_mass", "circ_pump_pressure")):
            obs.count("fixed_temperature_with_other_inflow_not_judged")
            continue
        # ... and judge only a feeder that feeds: fluid leaves its junction through some branch (a junction outside the
        # calculation or without flow reports the ambient temperature by convention, asserted by the repository's own tests)
        pj = net.res_junction.at[j, "p_bar"] if "p_bar" in net.res_junction.columns else float("nan")
        if math.isnan(float(pj)) or not any(s["up"] == ("j", j) for s in streams if s["table"] not in ("circ_pump_mass", "circ_pump_pressure")):
            obs.count("fixed_temperature_feeder_without_outflow_not_judged")
            continue
        obs.count("fixed_feed_temperatures")
        if abs(float(tj.at[j]) - vals[0]) > 1e-9:
            obs.violate("fixed_feed_temperature_not_met", "junction %d: t_k=%.9g, feeder prescribes %.9g" % (j, float(tj.at[j]), vals[0]))
    for t in ("circ_pump_mass", "circ_pump_pressure"):
        if has(net, t) and "res_" + t in net:
            for idx in net[t].index:
                s = by_el.get((t, idx))
                if s is not None:
                    obs.count("pump_outlet_temperatures")
                    if abs(s["tout"] - float(net[t].at[idx, "t_flow_k"])) > 1e-9:
                        obs.violate("pump_outlet_temperature_not_met", "%s: t_outlet_k=%.9g, t_flow_k=%.9g"
                                    % (name_of(net, t, idx), s["tout"], float(net[t].at[idx, "t_flow_k"])))
    # ---- bounds without heat sources
    if passive:
        feeds = [v for vals in fixed_T.values() for v in vals if v is not None]
        texts = [amb]
        if has(net, "pipe"):
            texts += [float(x) for x in net.pipe.text_k.values if not math.isnan(float(x))]
        lo, hi = min(feeds + texts) - 1e-6, max(feeds + texts) + 1e-6
        p = net.res_junction.p_bar
        for j in tj.index:
            if math.isnan(float(p.at[j])):
                continue
            obs.count("temperature_bounds_checked")
            v = float(tj.at[j])
            if not (lo <= v <= hi):
                obs.violate("temperature_out_of_bounds", "junction %d: %.6f K outside [%.6f, %.6f]" % (j, v, lo, hi))
        for s in streams:
            obs.count("temperature_bounds_checked")
            if not (lo <= s["tout"] <= hi):
                obs.violate("temperature_out_of_bounds", "%s[%s].t_outlet_k=%.6f outside [%.6f, %.6f]"
                            % (s["table"], s["idx"], s["tout"], lo, hi))
    return streams


def mon_c11(net, obs, opts, mode, transient=False):
    """Heat duties of exchangers, consumers and circulation pumps."""
    fluid = net.fluid
    cp = lambda x: float(fluid.get_heat_capacity(x))
    tolT = float(opts.get("tol_T", 1e-3))
    tight = tolT <= 1e-7
    streams = thermal_streams(net)
    by_el = {(s["table"], s["idx"]): s for s in streams}
    rt = 1e-6 if tight else 1e-3

    def duty(s):
        return s["m"] * 0.5 * (cp(s["tin"]) + cp(s["tout"])) * (s["tin"] - s["tout"])

    if has(net, "heat_exchanger"):
        T = net.heat_exchanger
        for idx in T.index:
            s = by_el.get(("heat_exchanger", idx))
            if s is None or not bool(T.at[idx, "in_service"]):
                continue
            q, want = duty(s), float(T.at[idx, "qext_w"])
            obs.count("exchanger_duties" + ("_negative" if want < 0 else ""))
            if s["signed_m"] < 0:
                obs.count("exchanger_duties_reverse_flow")
            obs.maxi("max_rel_duty_dev", abs(q - want) / max(abs(want), 1.0))
            if abs(q - want) > rt * max(abs(want), 1.0) + 1e-3:
                obs.violate("exchanger_duty", "%s: qext_w=%.8g but m*cp_mean*(Tin-Tout)=%.8g"
                            % (name_of(net, "heat_exchanger", idx), want, q), qext_w=want, duty=q, stream=s)
    if has(net, "heat_consumer") and "res_heat_consumer" in net:
        T, R = net.heat_consumer, net.res_heat_consumer
        for idx in T.index:
            s = by_el.get(("heat_consumer", idx))
            if s is None or not bool(T.at[idx, "in_service"]):
                continue
            sp = {k: float(T.at[idx, k]) for k in ("qext_w", "controlled_mdot_kg_per_s", "deltat_k", "treturn_k")}
            given = {k for k, v in sp.items() if not math.isnan(v)}
            cmode = "MF_DT" if given == {"controlled_mdot_kg_per_s", "deltat_k"} else \
                "MF_TR" if given == {"controlled_mdot_kg_per_s", "treturn_k"} else \
                "QE_MF" if given == {"qext_w", "controlled_mdot_kg_per_s"} else \
                "QE_DT" if given == {"qext_w", "deltat_k"} else "QE_TR" if given == {"qext_w", "treturn_k"} else "other"
            q_rep = float(R.at[idx, "qext_w"])
            dt_rep = float(R.at[idx, "deltat_k"])
            q = duty(s)
            obs.count("consumer_duties_%s_%s" % (cmode, mode))
            el = name_of(net, "heat_consumer", idx)
            if abs(dt_rep - (s["tin"] - s["tout"])) > 1e-9:
                obs.violate("consumer_deltat_inconsistent", "%s: deltat_k=%.9g but t_in - t_outlet = %.9g" % (el, dt_rep, s["tin"] - s["tout"]))
            if abs(q - q_rep) > rt * max(abs(q_rep), 1.0) + 1e-3:
                tag = "consumer_duty"
                if mode != "bidirectional" and cmode == "QE_TR":
                    tag = "qe_tr_consumer_sequential_inconsistent"
                elif mode != "bidirectional" and cmode == "QE_DT":
                    tag = "qe_dt_consumer_sequential_inconsistent"
                obs.violate(tag, "%s (%s, %s): reported qext_w=%.8g but m*cp_mean*deltaT=%.8g" % (el, cmode, mode, q_rep, q),
                            qext_w=q_rep, duty=q, mdot=s["m"], deltat=dt_rep)
            # set-points
            if "controlled_mdot_kg_per_s" in given or mode == "bidirectional":
                checks = []
                if "controlled_mdot_kg_per_s" in given:
                    checks.append(("mdot", s["signed_m"], sp["controlled_mdot_kg_per_s"], 1e-9))
                if "qext_w" in given:
                    checks.append(("qext_w", q_rep, sp["qext_w"], 1e-9))
                if "deltat_k" in given:
                    checks.append(("deltat_k", dt_rep, sp["deltat_k"], rt))
                if "treturn_k" in given:
                    checks.append(("treturn_k", s["tout"], sp["treturn_k"], 1e-7))
                for nm, got, want, tol in checks:
                    obs.count("consumer_setpoints_checked")
                    if abs(got - want) > tol * max(1.0, abs(want)):
                        obs.violate("consumer_setpoint_" + nm, "%s (%s, %s): %s=%.9g, set %.9g" % (el, cmode, mode, nm, got, want))
    # ---- loop closure per circulation pump (single-pump loops only)
    pumps = [(t, idx) for t in ("circ_pump_mass", "circ_pump_pressure") if has(net, t) for idx in net[t].index
             if bool(net[t].at[idx, "in_service"]) and (t, idx) in by_el]
    # ---- every circulation pump: the heat it reports is the heat its own stream takes up (inlet = return junction, outlet = its
    # own outlet temperature), whatever else flows into its flow junction
    for t, idx in pumps:
        s = by_el[(t, idx)]
        q_rep = float(net["res_" + t].at[idx, "qext_w"])
        own_heat = -duty(s)
        obs.count("circ_pump_own_duty_checks")
        if abs(q_rep - own_heat) > 1e-9 * max(abs(own_heat), 1.0) + 1e-6:
            obs.violate("circ_pump_duty_differs_from_own_stream", "%s: reported qext_w=%.9g but m*cp_mean*(t_outlet - t_from)=%.9g of its own stream"
                        % (name_of(net, t, idx), q_rep, own_heat), qext_w=q_rep, own=own_heat)
    # a loop that exchanges fluid with the outside (sinks, sources, storages) also exchanges heat there: not a closed loop
    open_loop = any(has(net, t) and bool(net[t]["in_service"].any()) for t in ("sink", "source", "mass_storage"))
    if transient:
        return          # pipes store heat between the steps of a transient series: the loop balance is no steady-state identity
    if len(pumps) == 1 and open_loop:
        obs.count("loop_closure_not_judged_fluid_exchange")
    if len(pumps) == 1 and not has(net, "ext_grid") and not open_loop:
        t, idx = pumps[0]
        q_pump = float(net["res_" + t].at[idx, "qext_w"])
        parts = 0.0
        mag = 0.0
        temps = []
        for s in streams:
            if s["table"] in ("circ_pump_mass", "circ_pump_pressure"):
                temps += [s["tin"], s["tout"]]      # the pump's outlet is the hot end of the loop's temperature range
                continue
            d = duty(s)
            parts += d
            mag += abs(d)
            temps += [s["tin"], s["tout"]]
        # mixing of streams of different temperature with cp(T) is not exactly enthalpy conserving when the duties
        # are written with mean heat capacities: honest tolerance = relative cp spread over the loop's range
        cps = [cp(x) for x in (min(temps), max(temps), 0.5 * (min(temps) + max(temps)))]
        spread = (max(cps) - min(cps)) / min(cps)
        tol = (spread + 1e-4) * max(mag, abs(q_pump))
        obs.count("loop_closures")
        obs.maxi("max_loop_closure_rel_dev", abs(q_pump - parts) / max(mag, 1.0))
        # the pump adds heat: its own duty m*cp_mean*(Tin - Tout) is negative; reported qext_w is the heat fed in
        s = by_el[(t, idx)]
        own = -duty(s)
        if abs(q_pump - parts) > tol:
            tag = "circ_pump_qext_cpT_difference" if abs(own - parts) <= tol else "loop_heat_not_closed"
            obs.violate(tag, "%s reports %.8g W, consumers+exchangers+pipe losses take %.8g W (pump m*cp_mean*dT=%.8g, tol %.3g)"
                        % (name_of(net, t, idx), q_pump, parts, own, tol), qext_w=q_pump, extracted=parts, own=own)
