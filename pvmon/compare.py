"""Comparison of the result tables of two runs, joined on element identity (the name column)."""
import math

import numpy as np

from pvmon.netgen import ALL_TABLES, by_name

SWAP = {"p_from_bar": "p_to_bar", "p_to_bar": "p_from_bar", "t_from_k": "t_to_k", "t_to_k": "t_from_k",
        "v_from_m_per_s": "v_to_m_per_s", "v_to_m_per_s": "v_from_m_per_s",
        "normfactor_from": "normfactor_to", "normfactor_to": "normfactor_from",
        "mdot_from_kg_per_s": "mdot_to_kg_per_s", "mdot_to_kg_per_s": "mdot_from_kg_per_s"}
SIGNED = {"v_mean_m_per_s", "vdot_m3_per_s", "vdot_norm_m3_per_s", "v_from_m_per_s", "v_to_m_per_s"}


FLOW_PROPORTIONAL = {"lambda", "reynolds", "v_mean_m_per_s", "v_from_m_per_s", "v_to_m_per_s", "vdot_m3_per_s",
                     "vdot_norm_m3_per_s", "dp_friction_loss_bar", "compr_power_mw"}


STATS = {}


def nonunique_physics(snap, eps=1e-8):
    """A pump or compressor without flow has no defined lift (it lifts for +0 and bypasses for -0): the
    pressures behind it are not unique and such a solution cannot be compared with another run."""
    for t in ("pump", "compressor"):
        for name, row in snap.get(t, {}).items():
            m = row.get("mdot_from_kg_per_s", float("nan"))
            if not math.isnan(m) and abs(m) <= eps:
                return True
    return False


def noise_level(snap, friction_noise=2e-9):
    """Largest flow of one snapshot that creates no friction the solver resolves (pipes: friction loss <= 2e-9 bar; valves /
    exchangers: velocity <= 1e-6 m/s) - and is small against the network's flows, so that a friction column that is wrong for
    real flows never qualifies.  Used where the two runs have no common pipe names (split rewrite)."""
    flows = [abs(r.get("mdot_from_kg_per_s", 0.0)) for rows in snap.values() for r in rows.values()
             if "mdot_from_kg_per_s" in r and not math.isnan(r["mdot_from_kg_per_s"])]
    cap = 1e-6 * max(flows, default=0.0)
    out = 0.0
    for t, rows in snap.items():
        for r in rows.values():
            m = r.get("mdot_from_kg_per_s", float("nan"))
            if math.isnan(m) or abs(m) > cap:
                continue
            if t == "pipe" and "dp_friction_loss_bar" in r and abs(r["dp_friction_loss_bar"]) <= friction_noise:
                out = max(out, abs(m))
            elif t in ("valve", "heat_exchanger", "flow_control") and (abs(r.get("v_mean_m_per_s", 1.0)) <= 1e-6 or abs(m) <= 1e-7):
                out = max(out, abs(m))
    return out


def snapshot(net, tables=None):
    """{table: {name: {column: value}}} of all result tables, keyed by element name."""
    out = {}
    for t in tables or ALL_TABLES:
        if t in net and "res_" + t in net and len(net[t]):
            df = by_name(net, t, res=True)
            out[t] = {str(n): {c: float(v) for c, v in row.items()} for n, row in df.iterrows()}
    return out


def close(a, b, rtol, atol):
    if math.isnan(a) and math.isnan(b):
        return True
    if math.isnan(a) or math.isnan(b):
        return False
    if a == b:
        return True
    return abs(a - b) <= atol + rtol * max(abs(a), abs(b))


def diff_snapshots(sa, sb, rtol=1e-7, atol=1e-9, name_map=None, reversed_names=(), skip_cols=(), only_tables=None,
                   col_atol=None, skip_names=(), zero_flow=1e-9, friction_noise=2e-9):
    """List of differences between two snapshots.  *name_map* maps names of A to names of B (default
    identity).  Elements in *reversed_names* have swapped from/to in B: flows change sign, end
    columns swap.  Returns (diffs, n_values_compared, max_rel_dev)."""
    diffs = []
    n = 0
    maxdev = 0.0
    col_atol = col_atol or {}
    # A pump / compressor lifts for forward flow and is a plain connection for reverse flow: a network may have one solution
    # on each side of that kink.  Two runs that settled on different sides are two valid results, not comparable.
    for t in ("pump", "compressor"):
        for name, ra in sa.get(t, {}).items():
            nb = (name_map or {}).get(name, name)
            rb = sb.get(t, {}).get(nb) if nb is not None else None
            if rb is None:
                continue
            ma, mb = ra.get("mdot_from_kg_per_s", float("nan")), rb.get("mdot_from_kg_per_s", float("nan"))
            if not (math.isnan(ma) or math.isnan(mb)) and ma * mb < 0 and min(abs(ma), abs(mb)) > zero_flow:
                STATS["not_comparable_other_side_of_machine_law"] = STATS.get("not_comparable_other_side_of_machine_law", 0) + 1
                return [], 0, 0.0
    # Flows whose friction loss is below what the solver resolves (the residual tolerance of the tight solves, 1e-9 bar)
    # are not determined by the equations (flat zero-flow loops): their magnitude is noise, and so is every flow of
    # that size.
    noise = 0.0
    for name, ra in sa.get("pipe", {}).items():
        nb = (name_map or {}).get(name, name)
        rb = sb.get("pipe", {}).get(nb) if nb is not None else None
        if rb is None or "dp_friction_loss_bar" not in ra:
            continue
        fa, fb = ra["dp_friction_loss_bar"], rb["dp_friction_loss_bar"]
        if not (math.isnan(fa) or math.isnan(fb)) and abs(fa) <= friction_noise and abs(fb) <= friction_noise:
            noise = max(noise, abs(ra["mdot_from_kg_per_s"]), abs(rb["mdot_from_kg_per_s"]))
    # the same for valves / heat exchangers (no friction column): a velocity below 1e-6 m/s gives zeta rho/2 v^2 < 1e-13 bar
    # exchangers and flow controllers report no velocity: their loss is quadratic in the flow (or absent), a flow of 1e-7 kg/s
    # produces less than 1e-15 bar
    for t in ("valve", "heat_exchanger", "flow_control"):
        for name, ra in sa.get(t, {}).items():
            nb = (name_map or {}).get(name, name)
            rb = sb.get(t, {}).get(nb) if nb is not None else None
            if rb is None or "mdot_from_kg_per_s" not in ra:
                continue
            ma_, mb_ = ra["mdot_from_kg_per_s"], rb["mdot_from_kg_per_s"]
            if math.isnan(ma_) or math.isnan(mb_):
                continue
            va_, vb_ = ra.get("v_mean_m_per_s", float("nan")), rb.get("v_mean_m_per_s", float("nan"))
            slow = not (math.isnan(va_) or math.isnan(vb_)) and abs(va_) <= 1e-6 and abs(vb_) <= 1e-6
            if slow or (abs(ma_) <= 1e-7 and abs(mb_) <= 1e-7):
                noise = max(noise, abs(ma_), abs(mb_))
    zero_flow = max(zero_flow, 2 * noise)
    for t, rows in sa.items():
        if only_tables is not None and t not in only_tables:
            continue
        if t not in sb:
            if any(name not in skip_names and (name_map or {}).get(name, name) is not None for name in rows):
                diffs.append((t, None, None, "table missing in B", None, None))
            continue
        for name, ra in rows.items():
            if name in skip_names:
                continue
            nb = (name_map or {}).get(name, name)
            if nb is None:
                continue
            rb = sb[t].get(nb)
            if rb is None:
                diffs.append((t, name, None, "element missing in B", None, None))
                continue
            rev = name in reversed_names
            # friction factor / Reynolds number of a branch whose flow is round-off noise are noise too
            noflow = abs(ra.get("mdot_from_kg_per_s", 1.0)) <= zero_flow and abs(rb.get("mdot_from_kg_per_s", 1.0)) <= zero_flow
            for c, va in ra.items():
                if c in skip_cols or (noflow and c in ("lambda", "reynolds")):
                    continue
                if noflow and noise and (c in FLOW_PROPORTIONAL or c.startswith("mdot_")):
                    continue
                cb = SWAP.get(c, c) if rev else c
                if cb not in rb:
                    continue
                vb = rb[cb]
                if rev and (c in SIGNED or c.startswith("mdot_")) and not c.startswith("mdot_"):
                    vb = -vb
                elif rev and c.startswith("mdot_"):
                    # mdot_from(A) = flow entering at A's from end = -(flow entering at B's from end) = mdot_to(B)
                    pass
                if c == "dp_friction_loss_bar":   # signed with the flow for liquids, absolute for gases
                    va, vb = abs(va), abs(vb)
                n += 1
                a_tol = col_atol.get(c, atol)
                r_tol = rtol
                # an undetermined circulation (noise loop, see above) rides on every branch of its loop
                m_tol = max(atol, zero_flow) if noise else atol
                if noise and c.startswith("mdot_") and "mdot_from_kg_per_s" in ra:
                    a_tol = max(a_tol, m_tol)
                if c in FLOW_PROPORTIONAL and "mdot_from_kg_per_s" in ra:
                    # flows that agree within atol carry that absolute slack into everything proportional to them
                    r_tol = rtol + 4 * m_tol / max(abs(ra["mdot_from_kg_per_s"]), 1e-300)
                if c == "v_mean_m_per_s" and "normfactor_from" in ra:
                    # the same switch acts per section (absolute pressures incl. the ambient pressure at the interpolated
                    # heights of interior nodes, threshold relative to the to-end): a single section can fall under it in one
                    # orientation only, which moves the pipe mean by at most 0.5e-5 relative
                    r_tol = max(r_tol, 1e-5)
                if c == "v_mean_m_per_s" and "normfactor_from" in ra and \
                        abs(ra["p_from_bar"] - ra["p_to_bar"]) <= 3e-5 * (abs(ra["p_to_bar"]) + 1.1):
                    # gas branches whose end pressures agree within 1e-5 (relative) use the from-pressure as
                    # mean pressure (documented switch in the kernels): direction dependent at that level
                    r_tol = max(r_tol, 3e-5)
                if not close(va, vb, r_tol, a_tol):
                    diffs.append((t, name, c, "A=%r B=%r" % (va, vb), va, vb))
                elif not (math.isnan(va) or va == vb) and max(abs(va), abs(vb)) > 1e3 * a_tol:
                    maxdev = max(maxdev, abs(va - vb) / max(abs(va), abs(vb), 1e-300))
    return diffs, n, maxdev
