"""Reachability model written from the statement of C04 / C18 (independent of the solver's search)."""


def supplied_junctions(spec, relax=()):
    """Set of junction names that can be reached from an in-service pressure-fixing element through
    in-service, open, hydraulically connecting branches.

    - starts: in-service junctions carrying an in-service p/pt ext grid, flow junctions of in-service circulation pumps
    - connecting: in-service pipes (unless a closed pi valve sits on them), open ju valves, in-service pumps,
      compressors, heat exchangers, circulation pumps, in-service flow controllers that are NOT active
    - directed from -> to: in-service pressure controllers
    - not connecting: active flow controllers, heat consumers, closed valves, out-of-service elements
    """
    # relax: deviations from the statement used to classify what a topology tool does instead
    #   "fc_connects" (active flow controllers and heat consumers connect), "pc_undirected", "t_grid_supply",
    #   "circ_pump_not_supply"
    relax = set(relax)
    jin = {j["name"]: j.get("in_service", True) for j in spec["junctions"]}
    adj = {j: set() for j in jin}

    def und(a, b):
        adj[a].add(b)
        adj[b].add(a)

    closed_pi = {(e["junction"], e["element"]) for e in spec["elements"]
                 if e["kind"] == "valve" and e["et"] == "pi" and not e.get("opened", True)}
    starts = []
    for e in spec["elements"]:
        k = e["kind"]
        ins = e.get("in_service", True)
        if k in ("pipe", "pipe_std"):
            if ins and not any((jn, e["name"]) in closed_pi for jn in (e["from_junction"], e["to_junction"])):
                und(e["from_junction"], e["to_junction"])
        elif k == "valve":
            if e["et"] == "ju" and e.get("opened", True):
                und(e["junction"], e["element"])
        elif k in ("pump", "compressor", "heat_exchanger"):
            if ins:
                und(e["from_junction"], e["to_junction"])
        elif k == "flow_control":
            if ins and (not e.get("control_active", True) or "fc_connects" in relax):
                und(e["from_junction"], e["to_junction"])
        elif k == "heat_consumer":
            if ins and "fc_connects" in relax:
                und(e["from_junction"], e["to_junction"])
        elif k == "press_control":
            if ins:
                adj[e["from_junction"]].add(e["to_junction"])
                if "pc_undirected" in relax:
                    adj[e["to_junction"]].add(e["from_junction"])
        elif k in ("circ_pump_mass", "circ_pump_pressure"):
            if ins:
                und(e["return_junction"], e["flow_junction"])
                if jin[e["flow_junction"]] and "circ_pump_not_supply" not in relax:
                    starts.append(e["flow_junction"])
        elif k == "ext_grid":
            if ins and ("p" in str(e.get("type", "pt")) or "t_grid_supply" in relax) and jin[e["junction"]]:
                starts.append(e["junction"])
    seen = set(starts)
    stack = list(starts)
    while stack:
        a = stack.pop()
        for b in adj[a]:
            if b not in seen:
                seen.add(b)
                stack.append(b)
    return seen


def expected_branch_active(spec, reached):
    """name -> True/False/None (None = not judged) whether a branch element must hold hydraulic results."""
    out = {}
    pi_on_pipe = {}
    for e in spec["elements"]:
        if e["kind"] == "valve" and e["et"] == "pi":
            pi_on_pipe.setdefault(e["element"], []).append(e)
    pipes = {e["name"]: e for e in spec["elements"] if e["kind"] in ("pipe", "pipe_std")}
    for e in spec["elements"]:
        k = e["kind"]
        if k in ("pipe", "pipe_std"):
            if e["name"] in pi_on_pipe:
                out[e["name"]] = None
            else:
                out[e["name"]] = bool(e.get("in_service", True) and e["from_junction"] in reached and e["to_junction"] in reached)
        elif k == "valve":
            if e["et"] == "ju":
                out[e["name"]] = bool(e.get("opened", True) and e["junction"] in reached and e["element"] in reached)
            else:
                out[e["name"]] = None
        elif k in ("pump", "compressor", "heat_exchanger", "flow_control", "press_control", "heat_consumer"):
            out[e["name"]] = bool(e.get("in_service", True) and e["from_junction"] in reached and e["to_junction"] in reached)
        elif k in ("circ_pump_mass", "circ_pump_pressure"):
            out[e["name"]] = bool(e.get("in_service", True) and e["return_junction"] in reached and e["flow_junction"] in reached)
    return out


def prune(spec, reached):
    """The network with every unsupplied junction, every element touching one, every out-of-service
    element and every closed valve deleted."""
    import copy
    spec = copy.deepcopy(spec)
    refs = ("from_junction", "to_junction", "junction", "return_junction", "flow_junction", "controlled_junction")
    keep = []
    gone_pipes = {e["element"] for e in spec["elements"]
                  if e["kind"] == "valve" and e["et"] == "pi" and not e.get("opened", True)}
    for e in spec["elements"]:
        ok = e.get("in_service", True) is not False and e["name"] not in gone_pipes
        if e["kind"] == "valve":
            ok = e.get("opened", True)
            if e["et"] == "ju":
                ok = ok and e["junction"] in reached and e["element"] in reached
            else:
                ok = ok and e["junction"] in reached
        else:
            for r in refs:
                if r in e and e[r] not in reached:
                    ok = False
        if ok:
            keep.append(e)
        elif e["kind"] in ("pipe", "pipe_std"):
            gone_pipes.add(e["name"])
    keep = [e for e in keep if not (e["kind"] == "valve" and e["et"] == "pi" and e["element"] in gone_pipes)]
    spec["elements"] = keep
    spec["junctions"] = [j for j in spec["junctions"] if j["name"] in reached]
    spec.pop("row_order", None)
    return spec
