"""C20 - multi-energy coupling conserves energy and equals the decoupled calculation."""
import copy
import math
import os

import numpy as np

from pvmon import netgen
from pvmon.fingerprint import result_bytes, diff
from pvmon.monitors import Obs
from pvmon.props.common import rng_for

MANIFEST = {
    "text": "Held on every generated multinet: the values the P2G / G2P / G2G controllers wrote equal scaled source value x efficiency x conversion factor with the heating value re-read from the fluid data file; converting forth and back returns the product of the efficiencies; after run_control (and for every step of a coupled time series) each gas member's result tables are bit-identical to a stand-alone pipeflow on a copy carrying the written values and the power member agrees with a stand-alone runpp; the multinet is reported converged iff every member converged, and an infeasible member never leaves the multinet reported converged.",
    "note": "Power-flow results are compared at 1e-10 (pandapower's solver is outside the repository); the heating values come from the higher_heating_value.txt files read by the oracle.",
    "technique": "runtime monitoring: conversion-law oracle on values written by the real controllers + differential oracle between coupled runs and stand-alone real pipeflow / runpp",
}
RULE = ("seeded multinets of 2-4 members (random gas net, optional second gas net with another fluid, pandapower example net, optional "
        "by-standing heating loop) with P2G, G2P (gas-led and power-led) and G2G controllers on scalar and vectorised element indices, "
        "non-unit scalings, random efficiencies, orders and levels; run_control on feasible and infeasible variants; a coupled time series "
        "with load profiles; non-trivial = a run with >= 2 controllers whose written values were judged; distinct = case hash")
ASSUMPTIONS = ["pandapower.runpp is deterministic for the example net"]
CONFIG = {"quick": {"shards": 8, "timeout_s": 900, "cases": 64},
          "thorough": {"shards": 16, "timeout_s": 3000, "cases": 1600}}
REQUIRED_COUNTERS = ["written_values_p2g", "written_values_g2p", "written_values_g2g", "written_values_vectorised", "round_trip_checks",
                     "member_results_vs_standalone_gas", "member_results_vs_standalone_power", "converged_flag_checks", "infeasible_member_checks",
                     "timeseries_steps_compared", "multinets_with_member_controllers", "power_led_g2p_vectorised"]


def gen_cases(tier, seed):
    return [{"seed": seed, "i": i} for i in range(CONFIG[tier]["cases"])]


def hhv_of(fluid_name):
    import pandapipes as pp
    return float(np.loadtxt(os.path.join(os.path.dirname(pp.__file__), "properties", fluid_name, "higher_heating_value.txt")))


def power_net():
    import pandapower.networks as pn
    n = pn.example_simple()
    return n


def run_case(case, ctx):
    import pandapipes as pp
    import pandapower as ppow
    from pandapipes.multinet.create_multinet import create_empty_multinet, add_net_to_multinet
    from pandapipes.multinet.control.controller.multinet_control import P2GControlMultiEnergy, G2PControlMultiEnergy, GasToGasConversion
    from pandapipes.multinet.control.run_control_multinet import run_control, prepare_run_ctrl
    from pandapipes.pf.pipeflow_setup import PipeflowNotConverged
    rng = rng_for("C20", case["seed"], case["i"])
    obs = Obs()
    f1 = str(rng.choice(["lgas", "hgas", "hydrogen", "methane"]))
    f2 = str(rng.choice([f for f in ["lgas", "hgas", "hydrogen", "methane"] if f != f1]))
    g1 = netgen.build(netgen.gen_hydraulic(rng, fluid=f1, features=("valves",), n=int(rng.integers(5, 10))))
    mn = create_empty_multinet("mn%d" % case["i"])
    pw = power_net()
    add_net_to_multinet(mn, pw, "power")
    add_net_to_multinet(mn, g1, "gas")
    two_gas = bool(rng.random() < 0.6)
    if two_gas:
        g2 = netgen.build(netgen.gen_hydraulic(rng, fluid=f2, features=[("multi_grid",), ("valves",)][int(rng.integers(2))], n=int(rng.integers(4, 8))))
        add_net_to_multinet(mn, g2, "gas_b")
    if rng.random() < 0.3:
        add_net_to_multinet(mn, netgen.build(netgen.gen_heating(rng, modes=["MF_DT", "QE_MF"])), "heat")
    buses = list(pw.bus.index)
    jg = list(g1.junction.index)
    expected = []      # (description, getter, expected value)
    nctrl = 0
    # ---- P2G: loads -> sources (scalar or vectorised)
    k = int(rng.integers(1, 3))
    loads = [int(ppow.create_load(pw, int(rng.choice(buses)), p_mw=float(rng.uniform(0.05, 0.6)), scaling=float(rng.choice([1.0, 0.5, 1.5])))) for _ in range(k)]
    srcs = [int(pp.create_source(g1, int(rng.choice(jg[1:])), 0.0, scaling=float(rng.choice([1.0, 0.8])), name="p2g_src%d" % i)) for i in range(k)]
    eff_p2g = float(rng.uniform(0.4, 0.9))
    P2GControlMultiEnergy(mn, loads[0] if k == 1 else loads, srcs[0] if k == 1 else srcs, efficiency=eff_p2g, name_power_net="power",
                          name_gas_net="gas", order=int(rng.integers(0, 3)), level=int(rng.integers(0, 2)))
    nctrl += 1
    h1 = hhv_of(f1)
    for l, s in zip(loads, srcs):
        expected.append(("p2g", "gas", "source", s, "mdot_kg_per_s", pw.load.at[l, "p_mw"] * pw.load.at[l, "scaling"] * 1e3 / (h1 * 3600) * eff_p2g, k > 1))
    # ---- G2P gas-led: sinks -> sgens
    k2 = int(rng.integers(1, 3))
    sinks = [int(pp.create_sink(g1, int(rng.choice(jg[1:])), float(rng.uniform(0.0005, 0.004)), scaling=float(rng.choice([1.0, 0.7, 1.3])), name="g2p_sink%d" % i)) for i in range(k2)]
    sgens = [int(ppow.create_sgen(pw, int(rng.choice(buses)), p_mw=0.0)) for _ in range(k2)]
    eff_g2p = float(rng.uniform(0.3, 0.65))
    G2PControlMultiEnergy(mn, sgens[0] if k2 == 1 else sgens, sinks[0] if k2 == 1 else sinks, efficiency=eff_g2p, name_power_net="power",
                          name_gas_net="gas", order=int(rng.integers(0, 3)), level=int(rng.integers(0, 2)))
    nctrl += 1
    for sg, sk in zip(sgens, sinks):
        expected.append(("g2p", "power", "sgen", sg, "p_mw", g1.sink.at[sk, "mdot_kg_per_s"] * g1.sink.at[sk, "scaling"] * h1 * 3600 / 1e3 * eff_g2p, k2 > 1))
    # ---- G2P power-led: sgen -> sink
    if rng.random() < 0.5:
        # scalar or vectorised; the index numbers of the partners differ and their pairing is not ascending
        k3 = int(rng.integers(1, 4))
        sg_led = [int(ppow.create_sgen(pw, int(rng.choice(buses)), p_mw=float(rng.uniform(0.02, 0.2)), scaling=float(rng.choice([1.0, 0.6])))) for _ in range(k3)]
        sk_led = [int(pp.create_sink(g1, int(rng.choice(jg[1:])), 0.0, name="g2p_led_sink%d" % i)) for i in range(k3)]
        sk_led = [sk_led[i] for i in rng.permutation(k3)]
        eff_led = float(rng.uniform(0.3, 0.65))
        G2PControlMultiEnergy(mn, sg_led[0] if k3 == 1 else sg_led, sk_led[0] if k3 == 1 else sk_led, efficiency=eff_led, name_power_net="power",
                              name_gas_net="gas", calc_gas_from_power=True, order=int(rng.integers(0, 3)))
        nctrl += 1
        if k3 > 1:
            obs.count("power_led_g2p_vectorised")
        for sg_, sk_ in zip(sg_led, sk_led):
            expected.append(("g2p", "gas", "sink", sk_, "mdot_kg_per_s", pw.sgen.at[sg_, "p_mw"] * pw.sgen.at[sg_, "scaling"] / (h1 * 3600 / 1e3 * eff_led), k3 > 1))
    # ---- G2G
    if two_gas:
        h2 = hhv_of(f2)
        jb = list(g2.junction.index)
        sk_from = int(pp.create_sink(g1, int(rng.choice(jg[1:])), float(rng.uniform(0.0005, 0.003)), scaling=float(rng.choice([1.0, 0.9])), name="g2g_sink"))
        src_to = int(pp.create_source(g2, int(rng.choice(jb[1:])), 0.0, name="g2g_src"))
        eff_g2g = float(rng.uniform(0.5, 0.95))
        GasToGasConversion(mn, sk_from, src_to, efficiency=eff_g2g, name_gas_net_from="gas", name_gas_net_to="gas_b", order=int(rng.integers(0, 3)), level=int(rng.integers(0, 3)))
        nctrl += 1
        expected.append(("g2g", "gas_b", "source", src_to, "mdot_kg_per_s", g1.sink.at[sk_from, "mdot_kg_per_s"] * g1.sink.at[sk_from, "scaling"] * h1 / h2 * eff_g2g, False))
    desc = {"fluids": [f1, f2 if two_gas else None], "controllers": nctrl}
    # ---- members may carry controllers of their own (same level as the coupling controllers)
    from pandapower.control import ConstControl
    own = []
    for name, net in list(mn["nets"].items()):
        if name != "power" and "sink" in net and len(net.sink) and rng.random() < 0.5:
            plain = [int(i) for i in net.sink.index if not str(net.sink.at[i, "name"]).startswith("g2")]
            if plain:
                ConstControl(net, element="sink", variable="mdot_kg_per_s", element_index=plain[:1], profile_name=None, data_source=None)
                own.append(name)
    if len(own) >= 1:
        obs.count("multinets_with_member_controllers")
    desc["members_with_own_controller"] = own
    # ---- coupled control run
    cv = prepare_run_ctrl(mn, None)
    outcome = "ok"
    try:
        run_control(mn, ctrl_variables=cv, iter=100)
    except PipeflowNotConverged:
        outcome = "not_converged"
    except Exception as e:
        outcome = "error:" + type(e).__name__
        obs.count("run_control_raised_" + type(e).__name__)
        obs.violate("run_control_raises", "run_control on a valid multinet raised %s: %s" % (type(e).__name__, str(e)[:100]), **desc)
    judged = 0
    if outcome == "ok":
        for kind, netname, table, idx, col, want, vec in expected:
            got = float(mn["nets"][netname][table].at[idx, col])
            obs.count("written_values_" + kind)
            if vec:
                obs.count("written_values_vectorised")
            judged += 1
            if abs(got - want) > 1e-12 * max(abs(want), 1e-30):
                obs.violate("written_value_" + kind, "%s controller wrote %s.%s[%s]=%.15g, conversion law gives %.15g" % (kind, table, col, idx, got, want),
                            kind=kind, vectorised=vec, **desc)
        # members equal stand-alone calculations with the written values
        for name, net in mn["nets"].items():
            if hasattr(net, "bus"):
                ref = copy.deepcopy(net)
                ppow.runpp(ref)
                obs.count("member_results_vs_standalone_power")
                d = float((ref.res_bus.vm_pu - net.res_bus.vm_pu).abs().max())
                if not d <= 1e-10:
                    obs.violate("power_member_differs_from_standalone", "power member: max |vm_pu| deviation %.3g from a stand-alone runpp" % d, **desc)
            else:
                ref = copy.deepcopy(net)
                try:
                    pp.pipeflow(ref, iter=100)
                    obs.count("member_results_vs_standalone_gas")
                    bad = diff(result_bytes(net), result_bytes(ref))
                    if bad:
                        obs.violate("gas_member_differs_from_standalone", "member %s: result tables %s differ from a stand-alone pipeflow with the written values" % (name, bad), member=name, **desc)
                except PipeflowNotConverged:
                    obs.violate("member_converged_only_in_multinet", "member %s converged in run_control but not stand-alone" % name, member=name, **desc)
        obs.count("converged_flag_checks")
        members = {n: bool(v["converged"]) for n, v in cv["nets"].items()}
        if bool(cv["converged"]) != all(members.values()):
            obs.violate("multinet_converged_flag", "multinet converged=%s but members %s" % (cv["converged"], members), **desc)
        for n, net in mn["nets"].items():
            if not hasattr(net, "bus") and not bool(net.converged):
                obs.violate("multinet_converged_flag", "run_control returned but member %s is marked not converged" % n, **desc)
        # forth and back: feed the gas made from a load back through a G2P unit
        l0, s0 = loads[0], srcs[0]
        made = float(g1.source.at[s0, "mdot_kg_per_s"])
        sk_rt = int(pp.create_sink(g1, jg[1], made, scaling=1.0, name="rt_sink"))
        sg_rt = int(ppow.create_sgen(pw, buses[0], p_mw=0.0))
        eff_back = float(rng.uniform(0.3, 0.7))
        c = G2PControlMultiEnergy(mn, sg_rt, sk_rt, efficiency=eff_back, name_power_net="power", name_gas_net="gas")
        c.control_step(mn)
        back = float(pw.sgen.at[sg_rt, "p_mw"])
        want = float(pw.load.at[l0, "p_mw"] * pw.load.at[l0, "scaling"]) * eff_p2g * eff_back
        obs.count("round_trip_checks")
        if abs(back - want) > 1e-12 * abs(want):
            obs.violate("round_trip_not_product_of_efficiencies", "load %.12g MW -> gas -> %.12g MW, product of efficiencies gives %.12g" % (
                pw.load.at[l0, "p_mw"] * pw.load.at[l0, "scaling"], back, want), **desc)
        # ---- an infeasible member must clear the flag / make the run fail
        g1.sink.at[sinks[0], "mdot_kg_per_s"] = 1e5
        probe = copy.deepcopy(g1)
        try:
            pp.pipeflow(probe, iter=30)
            really_infeasible = False
        except PipeflowNotConverged:
            really_infeasible = True
        except Exception:
            really_infeasible = False
        cv2 = prepare_run_ctrl(mn, None)
        if not really_infeasible:
            obs.count("overloaded_member_still_converges_not_judged")
        else:
            obs.count("infeasible_member_checks")
        try:
            if not really_infeasible:
                raise KeyboardInterrupt
            run_control(mn, ctrl_variables=cv2, iter=30)
            if bool(cv2["converged"]) or bool(cv2["nets"]["gas"]["converged"]) or bool(g1.converged):
                obs.violate("infeasible_member_reported_converged", "an infeasible gas member: run_control returned with converged=%s (gas %s, net.converged %s)"
                            % (cv2["converged"], cv2["nets"]["gas"]["converged"], g1.converged), **desc)
        except PipeflowNotConverged:
            if bool(g1.converged):
                obs.violate("infeasible_member_reported_converged", "run_control raised PipeflowNotConverged but the gas member is marked converged", **desc)
        except KeyboardInterrupt:
            pass
        except Exception as e:
            obs.count("infeasible_run_raised_" + type(e).__name__)
    else:
        obs.count("coupled_run_" + outcome)
    # ---- coupled time series (fresh multinet, P2G with a load profile)
    try:
        judged += timeseries_part(case, rng, obs)
    except Exception as e:
        import traceback
        obs.violate("timeseries_harness", "coupled time series part raised %s: %s" % (type(e).__name__, traceback.format_exc()[-400:]))
    rec = {"nontrivial": judged >= 2, "sample": {"case": case, "members": sorted(mn["nets"]), "controllers": nctrl,
                                                  "expected_written_values": [(e[0], e[1], e[2], e[4], e[5]) for e in expected[:4]]}}
    rec.update(obs.record())
    return rec


def timeseries_part(case, rng, obs):
    import pandas as pd
    import pandapipes as pp
    import pandapower as ppow
    from pandapower.timeseries import DFData, OutputWriter
    from pandapipes.multinet.create_multinet import create_empty_multinet, add_net_to_multinet
    from pandapipes.multinet.control.controller.multinet_control import coupled_p2g_const_control
    from pandapipes.multinet.timeseries.run_time_series_multinet import run_timeseries
    f1 = str(rng.choice(["lgas", "hgas", "methane"]))
    spec = netgen.gen_hydraulic(rng, fluid=f1, features=(), n=int(rng.integers(4, 8)))
    g = netgen.build(spec)
    pw = power_net()
    mn = create_empty_multinet("ts")
    add_net_to_multinet(mn, pw, "power")
    add_net_to_multinet(mn, g, "gas")
    load = int(ppow.create_load(pw, int(pw.bus.index[3]), p_mw=0.1, scaling=float(rng.choice([1.0, 0.5]))))
    src = int(pp.create_source(g, int(g.junction.index[1]), 0.0, name="ts_src"))
    nsteps = int(rng.integers(3, 6))
    prof = pd.DataFrame({"p": rng.uniform(0.02, 0.5, nsteps)})
    eff = float(rng.uniform(0.4, 0.9))
    coupled_p2g_const_control(mn, load, src, eff, name_power_net="power", name_gas_net="gas", profile_name="p", data_source=DFData(prof))
    ow = OutputWriter(g, range(nsteps), log_variables=[("res_source", "mdot_kg_per_s"), ("res_junction", "p_bar"), ("res_pipe", "mdot_from_kg_per_s")])
    OutputWriter(pw, range(nsteps), log_variables=[("res_load", "p_mw")])
    run_timeseries(mn, range(nsteps), iter=100, verbose=False)
    h = hhv_of(f1)
    compared = 0
    for s in range(nsteps):
        ref = netgen.build(spec)
        want_m = float(prof["p"][s]) * pw.load.at[load, "scaling"] * 1e3 / (h * 3600) * eff
        pp.create_source(ref, int(ref.junction.index[1]), want_m, name="ts_src")
        pp.pipeflow(ref, iter=100)
        obs.count("timeseries_steps_compared")
        compared += 1
        got_src = float(ow.output["res_source.mdot_kg_per_s"].loc[s][src])
        if abs(got_src - want_m) > 1e-12 * abs(want_m):
            obs.violate("timeseries_written_value", "step %d: source carries %.15g kg/s, conversion law gives %.15g" % (s, got_src, want_m), step=s)
        for key, tab, col in (("res_junction.p_bar", "res_junction", "p_bar"), ("res_pipe.mdot_from_kg_per_s", "res_pipe", "mdot_from_kg_per_s")):
            got = np.array([ow.output[key].loc[s][c] for c in ref[tab].index], float)
            exp = ref[tab][col].values.astype(float)
            if not np.all((np.isnan(got) & np.isnan(exp)) | (np.abs(got - exp) <= 1e-12 * np.maximum(1, np.abs(exp)))):
                obs.violate("timeseries_step_differs_from_standalone", "coupled series step %d: logged %s differs from a stand-alone pipeflow with the written value "
                            "(max dev %.3g)" % (s, key, float(np.nanmax(np.abs(got - exp)))), step=s)
                break
    return 1 if compared else 0
