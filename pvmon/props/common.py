"""Helpers shared by the property modules."""
import numpy as np


def rng_for(*keys):
    return np.random.default_rng([abs(hash_int(k)) for k in keys])


def hash_int(k):
    if isinstance(k, (int, np.integer)):
        return int(k)
    import hashlib
    return int(hashlib.sha1(str(k).encode()).hexdigest()[:12], 16)


def run_pipeflow(net, opts):
    """Run the real pipeflow; classify the outcome."""
    import pandapipes as pp
    from pandapipes.pf.pipeflow_setup import PipeflowNotConverged
    try:
        pp.pipeflow(net, **opts)
        return "ok", None
    except PipeflowNotConverged as e:
        return "not_converged", e
    except Exception as e:  # other exception classes are judged by C05 only
        return "error:%s" % type(e).__name__, e


def solver_configs(rng, gas):
    """A random solver configuration (all physical options default)."""
    cfg = {"use_numba": bool(rng.random() < 0.5),
           "friction_model": str(rng.choice(["nikuradse", "colebrook", "swamee-jain"]))}
    r = rng.random()
    if r < 0.45:
        cfg.update(nonlinear_method="constant", alpha=1.0)
    elif r < 0.8:
        cfg.update(nonlinear_method="automatic")
    else:
        cfg.update(nonlinear_method="constant", alpha=float(rng.choice([0.3, 0.7])))
    if rng.random() < 0.6:
        cfg.update(tol_p=1e-10, tol_m=1e-10, tol_res=1e-9)
    cfg["iter"] = 400
    return cfg


def run_thermal(net, mode, opts):
    """sequential / bidirectional directly; 'heat' = hydraulics run, then a heat-only run fed with the
    stored hydraulic solution (hydraulic result columns are then taken over from the first run)."""
    import numpy as np
    if mode != "heat":
        return run_pipeflow(net, dict(opts, mode=mode))
    out, exc = run_pipeflow(net, dict(opts, mode="hydraulics"))
    if out != "ok":
        return out, exc
    from pandapipes.idx_node import PINIT
    from pandapipes.idx_branch import MDOTINIT
    sol = np.concatenate((net._pit["node"][:, PINIT], net._pit["branch"][:, MDOTINIT]))
    hyd = {k: net[k].copy() for k in list(net.keys()) if isinstance(k, str) and k.startswith("res_")}
    out, exc = run_pipeflow(net, dict(opts, mode="heat", sol_vec=sol))
    if out == "ok":
        for k, df in hyd.items():
            if k in net and len(df):
                net[k] = net[k].combine_first(df)[list(net[k].columns)]
    return out, exc
