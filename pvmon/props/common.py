"""Helpers shared by the property modules."""
import numpy as np


def rng_for(*keys):
    return np.random.default_rng([abs(hash_int(k)) for k in keys])


def hash_int(k):
    if isinstance(k, (int, np.integer)):
        return int(k)
    import hashlib
    return int(hashlib.sha1(str(k).encode()).hexdigest()[:12], 16)


def run_pipeflow(net, opts):
    """Run the real pipeflow; classify the outcome."""
    import pandapipes as pp
    from pandapipes.pf.pipeflow_setup import PipeflowNotConverged
    try:
        pp.pipeflow(net, **opts)
        return "ok", None
    except PipeflowNotConverged as e:
        return "not_converged", e
    except Exception as e:  # other exception classes are judged by C05 only
        return "error:%s" % type(e).__name__, e


def solver_configs(rng, gas):
    """A random solver configuration (all physical options default)."""
    cfg = {"use_numba": bool(rng.random() < 0.5),
           "friction_model": str(rng.choice(["nikuradse", "colebrook", "swamee-jain"]))}
    r = rng.random()
    if r < 0.45:
        cfg.update(nonlinear_method="constant", alpha=1.0)
    elif r < 0.8:
        cfg.update(nonlinear_method="automatic")
    else:
        cfg.update(nonlinear_method="constant", alpha=float(rng.choice([0.3, 0.7])))
    if rng.random() < 0.6:
        cfg.update(tol_p=1e-10, tol_m=1e-10, tol_res=1e-9)
    cfg["iter"] = 400
    return cfg


def run_thermal(net, mode, opts):
    """sequential / bidirectional directly; 'heat' = hydraulics run, then a heat-only run fed with the
    stored hydraulic solution (hydraulic result columns are then taken over from the first run)."""
    import numpy as np
    if mode != "heat":
        return run_pipeflow(net, dict(opts, mode=mode))
    out, exc = run_pipeflow(net, dict(opts, mode="hydraulics"))
    if out != "ok":
        return out, exc
    from pandapipes.idx_node import PINIT
    from pandapipes.idx_branch import MDOTINIT
    sol = np.concatenate((net._pit["node"][:, PINIT], net._pit["branch"][:, MDOTINIT]))
    hyd = {k: net[k].copy() for k in list(net.keys()) if isinstance(k, str) and k.startswith("res_")}
    out, exc = run_pipeflow(net, dict(opts, mode="heat", sol_vec=sol))
    if out == "ok":
        for k, df in hyd.items():
            if k in net and len(df):
                net[k] = net[k].combine_first(df)[list(net[k].columns)]
    return out, exc


# ------------------------------------------------------------------------------------------------
# the repository's own test-suite as a workload (thorough tier)
# ------------------------------------------------------------------------------------------------
SUITE_PARTS = 12


def suite_cases():
    return [{"kind": "repo_suite", "part": i, "parts": SUITE_PARTS} for i in range(SUITE_PARTS)]


def run_suite_case(case, prop, obs):
    """Run one slice of the repository's test files under the monitor plugin and merge what it observed."""
    import glob
    import json
    import os
    import subprocess
    import sys
    import tempfile
    repo = os.environ.get("VERIF_REPO", "/repo")
    files = sorted(glob.glob(os.path.join(repo, "src", "pandapipes", "test", "**", "test_*.py"), recursive=True))
    mine = [f for i, f in enumerate(files) if i % case["parts"] == case["part"]]
    if not mine:
        return 0
    fd, out = tempfile.mkstemp(prefix="pvsuite_", suffix=".jsonl")
    os.close(fd)
    env = dict(os.environ, VERIF_PLUGIN_PROP=prop, VERIF_PLUGIN_OUT=out, PANDAPIPES_VERIF="1")
    try:
        r = subprocess.run([sys.executable, "-m", "pytest", "-q", "-p", "no:cacheprovider", "-p", "pvmon.pytest_plugin", "--timeout=900",
                            "-x", "--no-header", "-W", "ignore"] + mine, env=env, cwd=repo, capture_output=True, text=True, timeout=2400)
        tail = (r.stdout or "")[-300:]
        obs.count("suite_pytest_exit_%d" % r.returncode)
        n = 0
        with open(out) as f:
            for line in f:
                rec = json.loads(line)
                n += 1
                for v in rec["violations"]:
                    v = dict(v)
                    v.setdefault("witness", {})["test"] = rec.get("test")
                    v["msg"] = "[repo test %s] %s" % (rec.get("test"), v["msg"])
                    if sum(1 for x in obs.violations if x["tag"] == v["tag"]) < 3:
                        obs.violations.append(v)
                for k, c in rec["counters"].items():
                    obs.count(k, c)
                for k, m in rec["maxima"].items():
                    obs.maxi(k, m)
        obs.count("suite_pipeflow_calls_observed", n)
        if r.returncode not in (0, 1, 5):
            obs.count("suite_pytest_problem")
        return n
    finally:
        try:
            os.remove(out)
        except OSError:
            pass


# ------------------------------------------------------------------------------------------------
# transient time series: one net object, the internal tables re-used from step to step
_TRANSIENT = {"on_step": None, "registered": False}


def transient_init():
    """Register (once per worker) the H1 sink that hands every successful pipeflow of a running transient series to the
    monitor callback of the property."""
    import pandapipes._verif as v
    if _TRANSIENT["registered"]:
        return

    def sink(ev, p):
        cb = _TRANSIENT["on_step"]
        if cb is not None and ev == "exit" and p["exc"] is None:
            cb(p["net"])
    v.register(sink)
    _TRANSIENT["registered"] = True


def run_transient_series(rng, obs, on_step, heating_only=False, modes=("MF_DT", "MF_TR", "QE_MF")):
    """A transient heat time series with load profiles on a passive mesh or a heating loop; *on_step(net)* is called after every
    pipeflow of the series.  Start pressures differ from every prescribed pressure (they must not leak into later steps)."""
    import pandas as pd
    from pandapower.control import ConstControl
    from pandapower.timeseries import DFData
    from pandapipes.timeseries import run_timeseries
    from pvmon import netgen
    if rng.random() < 0.5 and not heating_only:
        spec = netgen.gen_thermal_mesh(rng, two_feeders=False, max_sections=2)
    else:
        spec = netgen.gen_heating(rng, modes=list(modes), source=str(rng.choice(["cpp", "cpm", "grid"])), max_sections=2, exchangers=False)
    for j in spec["junctions"]:
        j["pn_bar"] = float(rng.uniform(1.0, 4.0))
    net = netgen.build(spec)
    steps = int(rng.integers(3, 6))
    import numpy as np
    for t, col, lo, hi in (("sink", "mdot_kg_per_s", 0.4, 1.5), ("heat_consumer", "controlled_mdot_kg_per_s", 0.4, 1.5),
                           ("heat_consumer", "qext_w", 0.5, 1.3), ("heat_consumer", "deltat_k", 0.6, 1.4), ("heat_consumer", "treturn_k", 0.97, 1.02)):
        if t in net and len(net[t]) and col in net[t].columns:
            base = net[t][col].values.astype(float)
            idx = [int(i) for i, b in zip(net[t].index, base) if not np.isnan(b)]     # only the quantities the user prescribed
            if idx:
                df = pd.DataFrame({i: float(net[t].at[i, col]) * rng.uniform(lo, hi, steps) for i in idx})
                ConstControl(net, t, col, idx, profile_name=list(df.columns), data_source=DFData(df))
    opts = {"mode": str(rng.choice(["sequential", "bidirectional"])), "use_numba": bool(rng.random() < 0.5)}
    _TRANSIENT["on_step"] = on_step
    try:
        run_timeseries(net, time_steps=range(steps), transient=True, dt=float(rng.choice([60, 300])), iter=100, verbose=False,
                       continue_on_divergence=True, **opts)
        obs.count("transient_series")
    except Exception as e:
        obs.count("transient_series_raised_" + type(e).__name__)
    finally:
        _TRANSIENT["on_step"] = None
    return spec, opts
