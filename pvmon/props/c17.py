"""C17 - restructuring tools preserve referential integrity and physics."""
import copy
import math

import numpy as np

from pvmon import netgen, reach
from pvmon.compare import snapshot, diff_snapshots, nonunique_physics
from pvmon.monitors import Obs, FROM_TO
from pvmon.props.common import rng_for, run_pipeflow

MANIFEST = {
    "text": "Held (up to listed known findings) on every observed operation: after each step of seeded sequences of reindex_junctions / reindex_pipes / reindex_elements / create_continuous_*_index / drop_junctions / drop_pipes / drop_elements_at_junctions / fuse_junctions / select_subnet on nets with every component type (pi valves, remote pressure control, circulation pumps) no element references a missing junction or pipe, elements that were not addressed are unchanged when references are resolved to names, relabelling leaves pipeflow results unchanged up to the relabelling, and a subnet made of a complete supplied region reproduces that region's results.",
    "note": "Element identity is the name column; label schemes are chosen so that pipe and junction labels coincide in some cases and not in others.",
    "technique": "runtime monitoring: referential-integrity invariant checked after every real toolbox call + name-resolved before/after comparison + result-equivalence oracle",
}
RULE = ("seeded gas/water/heating nets with pi and ju valves, pumps, compressors, remote pressure controllers, flow controllers, heat "
        "exchangers, consumers, circulation pumps, storages; labels contiguous / shuffled / gaps / disjoint pipe-vs-junction ranges; random "
        "operation sequences of length 1-6 over the ten toolbox functions; non-trivial = a sequence with >= 1 operation judged; distinct = case hash")
ASSUMPTIONS = ["element names are unique (the generator guarantees it)"]
CONFIG = {"quick": {"shards": 8, "timeout_s": 600, "cases": 240},
          "thorough": {"shards": 16, "timeout_s": 3000, "cases": 6000}}
REQUIRED_COUNTERS = ["integrity_checks", "ops_reindex_junctions", "ops_reindex_pipes", "ops_reindex_elements", "ops_continuous_junction_index",
                     "ops_continuous_elements_index", "ops_drop_junctions", "ops_drop_pipes", "ops_drop_elements_at_junctions", "ops_fuse_junctions",
                     "ops_select_subnet", "untouched_checks", "stored_results_follow_relabelling_checks", "relabel_result_checks", "subnet_result_checks", "nets_with_pi_valves",
                     "nets_with_remote_press_control"]
REFCOLS = {"sink": ["junction"], "source": ["junction"], "mass_storage": ["junction"], "ext_grid": ["junction"],
           "press_control": ["from_junction", "to_junction", "controlled_junction"]}
for _t, (_a, _b) in FROM_TO.items():
    if _t not in ("valve", "press_control"):
        REFCOLS[_t] = [_a, _b]
OPS = ["reindex_junctions", "reindex_pipes", "reindex_elements", "continuous_junction_index", "continuous_elements_index",
       "drop_junctions", "drop_pipes", "drop_elements_at_junctions", "fuse_junctions", "select_subnet"]


def gen_cases(tier, seed):
    return [{"seed": seed, "i": i, "kind": "heat" if i % 4 == 3 else "hyd", "labels": ["contiguous", "shuffled", "gaps", "disjoint"][(i // 2) % 4]}
            for i in range(CONFIG[tier]["cases"])]


def make(case):
    rng = rng_for("C17", case["seed"], case["i"])
    if case["kind"] == "heat":
        spec = netgen.gen_heating(rng, max_sections=2)
        # a pi valve on a flow pipe
        pipes = [e for e in spec["elements"] if e["kind"] == "pipe"]
        if pipes and rng.random() < 0.7:
            p = pipes[int(rng.integers(len(pipes)))]
            spec["elements"].append({"kind": "valve", "name": "vpi", "junction": p["from_junction"], "element": p["name"], "et": "pi",
                                     "inner_diameter_mm": 80.0, "opened": True, "loss_coefficient": 0.5})
    else:
        spec = netgen.gen_hydraulic(rng, fluid=str(rng.choice(["water", "lgas"])),
                                    features=("valves", "pi_valves", "pump", "compressor", "press_control", "flow_control", "heat_exchanger",
                                              "mass_storage", "multi_grid"), max_sections=2, n=int(rng.integers(6, 14)))
        for e in spec["elements"]:
            if e["kind"] == "press_control" and rng.random() < 0.7:
                nxt = [p["to_junction"] for p in spec["elements"] if p["kind"] == "pipe" and p["from_junction"] == e["to_junction"]]
                if nxt:
                    e["controlled_junction"] = nxt[0]
        ctrl = {e["controlled_junction"] for e in spec["elements"] if e["kind"] == "press_control"}
        spec["elements"] = [e for e in spec["elements"] if not (e["kind"] == "ext_grid" and e["junction"] in ctrl)]
        spec["elements"].sort(key=lambda e: e["kind"] == "press_control")
    if case["labels"] == "disjoint":
        netgen.relabel(spec, rng, "contiguous")
        for e in spec["elements"]:
            if netgen.table_of(e["kind"]) == "pipe":
                e["index"] = 1000 + e["index"]
    else:
        netgen.relabel(spec, rng, case["labels"])
    return spec, rng


def resolved(net):
    """{table: {name: row dict}} with every reference replaced by the referenced element's name (None if dangling)."""
    jn = net.junction["name"].to_dict()
    pn = net.pipe["name"].to_dict() if "pipe" in net else {}
    out = {"junction": {r["name"]: {k: v for k, v in r.items()} for r in net.junction.to_dict("records")}}
    for t in netgen.BRANCH_TABLES + netgen.NODE_ELEMENT_TABLES:
        if t not in net or not len(net[t]):
            continue
        rows = {}
        for r in net[t].to_dict("records"):
            r = dict(r)
            if t == "valve":
                r["junction"] = jn.get(r["junction"])
                r["element"] = (pn if r["et"] == "pi" else jn).get(r["element"])
            else:
                for c in REFCOLS.get(t, []):
                    r[c] = jn.get(r[c])
            rows[r["name"]] = r
        out[t] = rows
    return out


def same_row(a, b):
    if set(a) != set(b):
        return False
    for k in a:
        x, y = a[k], b[k]
        if isinstance(x, float) and isinstance(y, float) and math.isnan(x) and math.isnan(y):
            continue
        if x != y and not (x is None and y is None):
            return False
    return True


def integrity(net, obs, op, desc):
    obs.count("integrity_checks")
    J = set(net.junction.index)
    P = set(net.pipe.index) if "pipe" in net else set()
    bad = []
    for t in netgen.BRANCH_TABLES + netgen.NODE_ELEMENT_TABLES:
        if t not in net or not len(net[t]):
            continue
        if t == "valve":
            v = net.valve
            for idx, ju, el, et in zip(v.index, v.junction.values, v.element.values, v.et.values):
                if ju not in J:
                    bad.append(("valve", int(idx), "junction", int(ju)))
                if (et == "pi" and el not in P) or (et == "ju" and el not in J):
                    bad.append(("valve", int(idx), "element(%s)" % et, int(el)))
        else:
            for c in REFCOLS.get(t, []):
                miss = net[t].index[~net[t][c].isin(J)]
                bad += [(t, int(i), c, int(net[t].at[i, c])) for i in miss]
    for t in list(net.keys()):
        if isinstance(t, str) and t.startswith("res_") and t[4:] in net and hasattr(net[t], "index") and len(net[t]):
            extra = set(net[t].index) - set(net[t[4:]].index)
            if extra:
                bad.append((t, sorted(int(x) for x in extra)[:3], "result rows without element", None))
    if not net.junction.index.is_unique or any(t in net and not net[t].index.is_unique for t in netgen.ALL_TABLES):
        bad.append(("index", None, "duplicate labels", None))
    if bad:
        pi = any(b[0] == "valve" and "pi" in str(b[2]) for b in bad) or (op in ("drop_pipes",) and any(b[0] == "valve" for b in bad))
        tag = "pi_valve_element_treated_as_junction" if pi and op != "drop_pipes" else ("drop_pipes_leaves_pi_valves" if pi else "dangling_reference")
        obs.violate(tag, "after %s: dangling references %s" % (op, bad[:4]), op=op, dangling=[list(map(str, b)) for b in bad[:6]], **desc)
        return False
    return True


def run_case(case, ctx):
    import pandapipes as pp
    spec, rng = make(case)
    obs = Obs()
    net = netgen.build(spec)
    mode = "sequential" if case["kind"] == "heat" else "hydraulics"
    opts = dict(netgen.TIGHT, mode=mode)
    if any(e["kind"] == "valve" and e["et"] == "pi" for e in spec["elements"]):
        obs.count("nets_with_pi_valves")
    if any(e["kind"] == "press_control" and e["controlled_junction"] != e["to_junction"] for e in spec["elements"]):
        obs.count("nets_with_remote_press_control")
    out0, _ = run_pipeflow(net, opts)
    s0 = snapshot(net) if out0 == "ok" else None
    if s0 is not None and nonunique_physics(s0):
        s0 = None
    judged = 0
    nops = int(rng.integers(1, 7))
    desc = {"labels": case["labels"], "kind": case["kind"]}
    history = []
    for step in range(nops):
        op = OPS[int(rng.integers(len(OPS)))]
        history.append(op)
        J = list(net.junction.index)
        P = list(net.pipe.index) if "pipe" in net else []
        if len(J) < 3:
            break
        before = resolved(net)
        stored_before = snapshot(net) if s0 is not None else None
        removed_j, removed_named = set(), {}
        relabel_only = op in OPS[:5]
        try:
            if op == "reindex_junctions":
                k = int(rng.integers(1, len(J) + 1))
                old = [int(x) for x in rng.choice(J, k, replace=False)]
                pool = [x for x in range(0, 3 * len(J) + 2000) if x not in set(J) - set(old)]
                new = [int(x) for x in rng.choice(pool, k, replace=False)]
                pp.reindex_junctions(net, dict(zip(old, new)))
            elif op == "reindex_pipes":
                if not P:
                    continue
                k = int(rng.integers(1, len(P) + 1))
                old = [int(x) for x in rng.choice(P, k, replace=False)]
                pool = [x for x in range(0, 3 * len(P) + 3000) if x not in set(P) - set(old)]
                new = [int(x) for x in rng.choice(pool, k, replace=False)]
                pp.reindex_pipes(net, dict(zip(old, new)))
            elif op == "reindex_elements":
                tabs = [t for t in ("sink", "valve", "ext_grid", "pump", "heat_consumer", "flow_control") if t in net and len(net[t])]
                if not tabs:
                    continue
                t = tabs[int(rng.integers(len(tabs)))]
                idx = list(net[t].index)
                new = [int(x) for x in rng.choice(np.arange(500, 900), len(idx), replace=False)]
                pp.reindex_elements(net, t, dict(zip([int(i) for i in idx], new)))
            elif op == "continuous_junction_index":
                pp.create_continuous_junction_index(net, start=int(rng.integers(0, 4)))
            elif op == "continuous_elements_index":
                pp.create_continuous_elements_index(net, start=int(rng.integers(0, 3)))
            elif op == "drop_junctions":
                k = int(rng.integers(1, max(2, len(J) // 4)))
                removed_j = set(int(x) for x in rng.choice(J, k, replace=False))
                pp.drop_junctions(net, list(removed_j))
            elif op == "drop_pipes":
                if not P:
                    continue
                k = int(rng.integers(1, max(2, len(P) // 3)))
                dp = [int(x) for x in rng.choice(P, k, replace=False)]
                removed_named = {"pipe": {net.pipe.at[i, "name"] for i in dp}}
                pp.drop_pipes(net, dp)
            elif op == "drop_elements_at_junctions":
                k = int(rng.integers(1, max(2, len(J) // 4)))
                removed_j = set(int(x) for x in rng.choice(J, k, replace=False))
                pp.drop_elements_at_junctions(net, list(removed_j))
            elif op == "fuse_junctions":
                a, b = (int(x) for x in rng.choice(J, 2, replace=False))
                pp.fuse_junctions(net, a, [b])
            elif op == "select_subnet":
                k = int(rng.integers(max(2, len(J) // 2), len(J) + 1))
                keepj = [int(x) for x in rng.choice(J, k, replace=False)]
                removed_j = set(J) - set(keepj)
                net = pp.select_subnet(net, keepj)
        except Exception as e:
            jlabels, plabels = set(J), set(P)
            coincide = bool(jlabels & plabels)
            tag = "pi_valve_element_treated_as_junction" if ("valve" in net and (net.valve.et == "pi").any() and op in
                                                          ("reindex_junctions", "continuous_junction_index", "continuous_elements_index", "fuse_junctions")) else "toolbox_raises"
            import traceback
            obs.violate(tag, "%s raised %s: %s" % (op, type(e).__name__, str(e)[:120]), op=op, history=history,
                        traceback=traceback.format_exc()[-900:], **desc)
            break
        obs.count("ops_" + op)
        judged += 1
        ok = integrity(net, obs, op, desc)
        after = resolved(net)
        # ---- elements that were not addressed are unchanged (name-resolved)
        obs.count("untouched_checks")
        jname_removed = {before["junction"][n]["name"] for n in before["junction"]
                         if op != "drop_elements_at_junctions" and n not in after["junction"]} if False else set()
        gone_j = set(before["junction"]) - set(after["junction"])
        for t, rows in before.items():
            for name, row in rows.items():
                refs = [row.get(c) for c in (REFCOLS.get(t, []) + (["junction", "element"] if t == "valve" else []))]
                touches_removed = False
                if op in ("drop_junctions", "drop_elements_at_junctions", "select_subnet"):
                    rem_names = {before["junction"][n]["name"] for n in before["junction"]} - set(after["junction"]) \
                        if op != "drop_elements_at_junctions" else set()
                    if op == "drop_elements_at_junctions":
                        jn_before = {}
                    touches_removed = any(r in gone_j for r in refs) or (t == "junction" and name in gone_j)
                if op == "drop_elements_at_junctions":
                    # junction rows stay; elements at the given junctions go
                    idx2name = None
                if op == "fuse_junctions" or touches_removed:
                    continue
                if t == "pipe" and name in removed_named.get("pipe", ()):
                    continue
                if t == "valve" and row["et"] == "pi" and (row["element"] in removed_named.get("pipe", ())
                                                          or row["element"] not in after.get("pipe", {})):
                    continue     # a valve at a pipe end goes with its pipe
                if op == "drop_elements_at_junctions":
                    continue   # judged by integrity + result tables only (the junction rows themselves must stay)
                new = after.get(t, {}).get(name)
                if new is None:
                    tagx = "pi_valve_element_treated_as_junction" if (t == "valve" and row["et"] == "pi") else "untouched_element_removed"
                    obs.violate(tagx, "%s removed %s '%s' that it was not asked to touch" % (op, t, name), op=op, **desc)
                elif not same_row(row, new):
                    ch = [k for k in row if not same_row({k: row[k]}, {k: new.get(k)})]
                    tagx = "pi_valve_element_treated_as_junction" if (t == "valve" and row["et"] == "pi" and "element" in ch) else "untouched_element_changed"
                    obs.violate(tagx, "%s changed %s '%s' columns %s: %s -> %s" % (op, t, name, ch, [row[k] for k in ch], [new.get(k) for k in ch]), op=op, **desc)
        if op == "drop_elements_at_junctions" and set(after["junction"]) != set(before["junction"]):
            obs.violate("drop_elements_removed_junctions", "drop_elements_at_junctions removed junction rows", op=op, **desc)
        if not ok:
            break
        # ---- the stored result tables follow a pure relabelling (no new calculation yet)
        if relabel_only and stored_before is not None:
            d, n, md = diff_snapshots(stored_before, snapshot(net), rtol=0.0, atol=0.0)
            obs.count("stored_results_follow_relabelling_checks")
            if d:
                obs.violate("stored_results_misaligned_after_relabelling", "after %s the stored results of %d values sit at other elements, first res_%s[%s].%s %s"
                            % (op, len(d), d[0][0], d[0][1], d[0][2], d[0][3]), op=op, **desc)
        # ---- relabelling leaves results unchanged
        if relabel_only and s0 is not None:
            out1, _ = run_pipeflow(net, opts)
            if out1 == "ok":
                d, n, md = diff_snapshots(s0, snapshot(net), rtol=1e-7, atol=1e-9, col_atol={"qext_w": 1e-4})
                obs.count("relabel_result_checks")
                if d:
                    obs.violate("results_change_with_relabelling", "after %s: %d result values differ, first res_%s[%s].%s %s"
                                % (op, len(d), d[0][0], d[0][1], d[0][2], d[0][3]), op=op, **desc)
            else:
                obs.violate("results_change_with_relabelling", "after %s the pipeflow outcome is %s (was ok)" % (op, out1), op=op, **desc)
        else:
            s0 = None if not relabel_only else s0
    # ---- a subnet made of a complete supplied region reproduces that region's results
    spec2, rng2 = make(case)
    reached = reach.supplied_junctions(spec2)
    net2 = netgen.build(spec2)
    o2, _ = run_pipeflow(net2, opts)
    if o2 == "ok" and reached and not nonunique_physics(snapshot(net2)):
        labels = [int(net2.junction.index[net2.junction["name"] == n][0]) for n in reached]
        try:
            sub = pp.select_subnet(net2, labels)
            integrity(sub, obs, "select_subnet", desc)
            o3, _ = run_pipeflow(sub, opts)
            obs.count("subnet_result_checks")
            if o3 != "ok":
                obs.violate("subnet_results_differ", "subnet of the supplied region: pipeflow outcome %s" % o3, **desc)
            else:
                ssub = snapshot(sub)
                full = {t: {n: r for n, r in rows.items() if n in ssub.get(t, {})} for t, rows in snapshot(net2).items() if t in ssub}
                d, n, md = diff_snapshots(full, ssub, rtol=1e-7, atol=1e-9, col_atol={"qext_w": 1e-4})
                if d:
                    obs.violate("subnet_results_differ", "subnet of the supplied region: %d values differ, first res_%s[%s].%s %s"
                                % (len(d), d[0][0], d[0][1], d[0][2], d[0][3]), **desc)
        except Exception as e:
            tag = "pi_valve_element_treated_as_junction" if any(e_["kind"] == "valve" and e_["et"] == "pi" for e_ in spec2["elements"]) else "toolbox_raises"
            obs.violate(tag, "select_subnet of the supplied region raised %s: %s" % (type(e).__name__, str(e)[:100]), **desc)
    rec = {"nontrivial": judged >= 1, "sample": {"case": case, "net": netgen.spec_summary(spec), "operations": judged}}
    rec.update(obs.record())
    return rec
