"""C06 - results do not depend on labels, row order or creation order."""
import copy
import math

from pvmon import netgen
from pvmon.compare import snapshot, diff_snapshots, nonunique_physics
from pvmon.monitors import Obs
from pvmon.props.common import rng_for, run_pipeflow

MANIFEST = {
    "text": "Held on every generated network: results of a base description and of its relabelled (shuffled, gapped, >=1e5, mixed labels), row-permuted and creation-shuffled variants agree element by element (joined on name) within rtol 1e-7 on tight solves (observed deviations <= 1e-10), for gas, water and heating nets incl. multi-section pipes, pi valves and out-of-service elements.",
    "note": "Both sides are tight Newton solves; a side that does not converge makes the pair not comparable (counted). Element identity is carried by the name column.",
    "technique": "runtime monitoring: metamorphic oracle (relabel / permute rows / shuffle creation) comparing result tables of real runs",
}
RULE = ("seeded random hydraulic (gas/water, all features) and district-heating networks; each is solved as created and "
        "as 3 variants: injective relabelling of every table (5 schemes incl. labels >= 1e5 so that the numpy grouped-sum "
        "path is taken), random row permutation of every table, random creation order; a case is non-trivial when the base "
        "and at least one variant converged and >= 20 result values were compared; distinct = case parameter hash")
ASSUMPTIONS = ["a non-converged side is not comparable (counted), never a violation"]
CONFIG = {"quick": {"shards": 8, "timeout_s": 600, "cases": 240},
          "thorough": {"shards": 16, "timeout_s": 3000, "cases": 5000, "env": {}}}
REQUIRED_COUNTERS = ["pairs_compared_relabel", "pairs_compared_rows", "pairs_compared_creation",
                     "pairs_with_multi_section_pipes", "pairs_with_large_labels", "pairs_heating", "pairs_gas",
                     "pairs_with_out_of_service", "pairs_with_pi_valves", "pairs_compared_component_tables"]
FEATS = [("valves", "pi_valves", "oos"), ("pump", "compressor", "multi_pump", "valves", "mass_storage"),
         ("flow_control", "press_control", "multi_grid"), ("heat_exchanger", "islands", "oos", "pi_valves", "closed"),
         ("valves", "pi_valves", "pump", "compressor", "flow_control", "press_control", "heat_exchanger",
          "mass_storage", "multi_grid", "multi_pump", "islands", "oos", "closed", "std_pipes")]
SCHEMES = ["shuffled", "gaps", "large", "mixed"]


def gen_cases(tier, seed):
    out = []
    for i in range(CONFIG[tier]["cases"]):
        out.append({"seed": seed, "i": i, "kind": "heat" if i % 3 == 2 else "hyd",
                    "fluid": ["water", "lgas", "hydrogen", "hgas"][i % 4], "feats": list(FEATS[(i // 3) % len(FEATS)]),
                    "scheme": SCHEMES[(i // 2) % len(SCHEMES)], "numba": bool((i // 5) % 2)})
    return out


def make(case):
    rng = rng_for("C06", case["seed"], case["i"])
    if case["kind"] == "heat":
        base = netgen.gen_heating(rng)
        netgen.relabel(base, rng, "contiguous")
        opts = dict(netgen.TIGHT, mode=str(rng.choice(["sequential", "bidirectional"])), use_numba=case["numba"])
    else:
        base = netgen.gen_hydraulic(rng, fluid=case["fluid"], features=case["feats"], max_sections=4)
        if {"pump", "compressor"} & set(case["feats"]):
            # several machines of different types plus out-of-service stand-by twins: row / creation order decides which rows
            # of the table are inactive
            netgen.add_standby(base, rng)
        opts = dict(netgen.TIGHT, use_numba=case["numba"],
                    friction_model=str(rng.choice(["nikuradse", "colebrook", "swamee-jain"])))
        if opts["friction_model"] == "colebrook":
            opts.update(tolerance_colebrook=1e-12, max_iter_colebrook=200)
    if case["kind"] != "heat" and rng.random() < 0.3:
        # a net that holds only the tables of the elements created, in the order of their first creation: the internal order of the
        # component tables follows the (shuffled) creation order
        sec = copy.deepcopy(base)
        sec["sector"] = "None"
        sector_variant = netgen.shuffle_creation(sec, rng)
    else:
        sector_variant = None
    variants = {
        "relabel": netgen.relabel(copy.deepcopy(base), rng, case["scheme"]),
        "rows": netgen.permute_rows(netgen.relabel(copy.deepcopy(base), rng, "shuffled"), rng),
        "creation": netgen.shuffle_creation(base, rng),
    }
    if sector_variant is not None:
        variants["component_tables"] = sector_variant
    return base, variants, opts


def run_case(case, ctx):
    base, variants, opts = make(case)
    obs = Obs()
    net = netgen.build(base)
    outcome, _ = run_pipeflow(net, opts)
    obs.count("base_" + outcome)
    rec = {"nontrivial": False}
    if outcome != "ok":
        rec.update(obs.record())
        return rec
    s0 = snapshot(net)
    if nonunique_physics(s0):
        obs.count("not_comparable_zero_flow_pump_or_compressor")
        rec.update(obs.record())
        return rec
    total = 0
    for vname, vspec in variants.items():
        vnet = netgen.build(vspec)
        out, exc = run_pipeflow(vnet, opts)
        if out != "ok":
            obs.count("not_comparable_" + vname)
            continue
        diffs, n, maxdev = diff_snapshots(s0, snapshot(vnet), rtol=1e-7, atol=1e-9,
                                          col_atol={"reynolds": 1e-6, "qext_w": 1e-5})
        total += n
        obs.count("pairs_compared_" + vname)
        obs.count("values_compared", n)
        obs.maxi("max_rel_deviation", maxdev)
        if any(e["kind"] == "pipe" and e.get("sections", 1) > 1 for e in base["elements"]):
            obs.count("pairs_with_multi_section_pipes")
        if vname == "relabel" and case["scheme"] in ("large", "mixed"):
            obs.count("pairs_with_large_labels")
        if case["kind"] == "heat":
            obs.count("pairs_heating")
        elif base["fluid"] != "water":
            obs.count("pairs_gas")
        if any(e.get("in_service") is False for e in base["elements"]):
            obs.count("pairs_with_out_of_service")
        if any(e["kind"] == "valve" and e["et"] == "pi" for e in base["elements"]):
            obs.count("pairs_with_pi_valves")
        if diffs:
            t, name, col, msg = diffs[0][:4]
            tag = "t_outlet_misplaced" if all(d[2] == "t_outlet_k" for d in diffs) and vname != "creation" else \
                "results_depend_on_" + vname
            if vname == "component_tables":
                # Which order matters?  Listed finding: interior nodes copy their junction's temperature before or after a feeder wrote
                # its t_k there, depending on whether the feeder's table precedes the pipe / valve table.  Decided by a third run: the
                # same Sector.NONE net with every node element created after all branch elements (the relative order of the default
                # component list), branch tables still in shuffled order.  If that run agrees with the base, the difference belongs to
                # the listed mechanism; if not, the order of the branch tables matters: violation.
                NODE_EL = ("ext_grid", "sink", "source", "mass_storage")
                alt = copy.deepcopy(vspec)
                alt["elements"] = [e for e in alt["elements"] if e["kind"] not in NODE_EL] + [e for e in alt["elements"] if e["kind"] in NODE_EL]
                anet = netgen.build(alt)
                aout, _ = run_pipeflow(anet, opts)
                obs.count("component_table_differences_examined")
                if aout == "ok" and not diff_snapshots(s0, snapshot(anet), rtol=1e-7, atol=1e-9, col_atol={"reynolds": 1e-6, "qext_w": 1e-5})[0]:
                    tag = "interior_node_start_temperature_depends_on_table_order"
            obs.violate(tag, "%s variant (%s): %d of %d values differ, first res_%s[%s].%s %s"
                        % (vname, case["scheme"] if vname == "relabel" else "", len(diffs), n, t, name, col, msg),
                        variant=vname, differing=[list(d[:4]) for d in diffs[:8]])
    rec["nontrivial"] = total >= 20
    if rec["nontrivial"]:
        rec["sample"] = {"case": case, "net": netgen.spec_summary(base), "options": opts, "values_compared": total,
                         "relabel_example": {j["name"]: j["index"] for j in variants["relabel"]["junctions"][:6]}}
    rec.update(obs.record())
    return rec
