"""C01 - mass is conserved at every supplied junction and over the whole network."""
import numpy as np

from pvmon import netgen
from pvmon.monitors import Obs, mon_c01
from pvmon.props.common import suite_cases, run_suite_case, rng_for, run_pipeflow, solver_configs

MANIFEST = {'text': 'Held on every returned pipeflow of the seeded workload: nodal and global mass balances rebuilt from the user tables are at round-off (1e-16..1e-13 kg/s observed) for all component kinds, label schemes and solver configurations exercised; exploration is the honest level because the quantifier ranges over all networks.', 'note': "Trusts the monitor's own incidence reconstruction (pi valves insert a virtual node) and the 1e-10 relative bound; nets the generator does not produce are not covered.", 'technique': 'runtime monitoring: conservation oracle over result tables after every real pipeflow on generated networks'}

RULE = ("seeded random gas/water networks (tree + chords, parallel branches, ju/pi valves, pumps, compressors, "
        "flow/pressure controllers, heat exchangers, storages, several ext grids, circulation-pump loops with make-up ext grids and leaks, transient heat time series with load profiles (every step monitored through hook H1), islands, out-of-service "
        "elements, five index-label schemes) built through the public create_* API and solved by the real "
        "pipeflow under a random solver configuration (numba on/off, 3 friction models, constant alpha 1/0.3/0.7 "
        "or automatic damping, default or tight tolerances); a case is non-trivial when the run returned and at "
        "least one supplied junction with >= 3 incident flows carries non-zero flow; distinct = distinct case "
        "parameter hash")
ASSUMPTIONS = ["incidence is rebuilt from the user tables by the monitor (pvmon.monitors.incidence)",
               "bound 1e-10*(1+sum|terms|) for undamped final steps; deg*tol_m*(1-a)/a added for constant alpha<1"]
CONFIG = {
    "quick": {"shards": 8, "timeout_s": 600, "cases": 640},
    "thorough": {"shards": 16, "timeout_s": 3000, "cases": 16000, "large": 24},
}
REQUIRED_COUNTERS = ["balances_junction_deg>=3", "balances_virtual_pi_valve_node", "global_balances",
                     "runs_gas", "runs_liquid", "runs_numba", "runs_numpy", "runs_alpha_lt_1",
                     "runs_automatic", "runs_circulation_pump_loop", "runs_ext_grid_in_pump_loop", "runs_thermal_mode_with_thermally_unsupplied_part", "transient_steps_monitored"]

FEATURE_SETS = [
    (), ("valves",), ("valves", "pi_valves", "closed"), ("pump", "compressor", "valves"),
    ("flow_control", "valves"), ("press_control",), ("heat_exchanger", "mass_storage"),
    ("multi_grid", "mass_storage"), ("islands", "oos", "valves"), ("std_pipes", "pi_valves"),
    ("valves", "pi_valves", "pump", "compressor", "flow_control", "press_control", "heat_exchanger",
     "mass_storage", "multi_grid", "islands", "oos", "closed"),
]
LABELS = ["contiguous", "shuffled", "gaps", "large", "mixed"]
FLUIDS = ["water", "water", "lgas", "hgas", "hydrogen", "methane"]


def worker_init(ctx):
    # transient time series: the balance monitor rides on every pipeflow of the series through hook H1
    from pvmon.props.common import transient_init
    transient_init()


def gen_cases(tier, seed):
    cfg = CONFIG[tier]
    cases = []
    for i in range(cfg["cases"]):
        cases.append({"seed": seed, "i": i, "fluid": FLUIDS[i % len(FLUIDS)],
                      "features": list(FEATURE_SETS[(i // len(FLUIDS)) % len(FEATURE_SETS)]),
                      "labels": LABELS[(i // 7) % len(LABELS)], "n": None})
        if i % 40 == 7:
            cases.append({"seed": seed, "i": 3 * 10 ** 6 + i, "transient": True, "fluid": "water", "features": [], "labels": "contiguous", "n": None})
        if i % 6 == 5:
            cases.append({"seed": seed, "i": 2 * 10 ** 6 + i, "loop": True, "fluid": "water", "features": [], "labels": LABELS[(i // 6) % len(LABELS)], "n": None})
    for k in range(cfg.get("large", 0)):
        cases.append({"seed": seed, "i": 10 ** 6 + k, "fluid": FLUIDS[k % len(FLUIDS)],
                      "features": ["valves", "mass_storage", "multi_grid"], "labels": LABELS[k % len(LABELS)],
                      "n": [300, 800, 2000][k % 3]})
    _cases = cases
    if tier == "thorough":
        _cases = list(_cases) + suite_cases()
    return _cases


def make(case):
    rng = rng_for("C01", case["seed"], case["i"])
    if case.get("loop"):
        # district-heating loop: the circulation pump is a branch AND a pressure-fixing element; optionally an ext grid
        # holds the pressure / makes up water at the pump's flow junction or elsewhere, and a sink draws water from the loop
        spec = netgen.gen_heating(rng, source=str(rng.choice(["cpp", "cpm"])), modes=["MF_DT", "MF_TR", "QE_MF"], max_sections=3)
        pump = [e for e in spec["elements"] if e["kind"].startswith("circ_pump")][0]
        r = rng.random()
        if r < 0.7:
            at = pump["flow_junction"] if rng.random() < 0.6 else str(rng.choice([j["name"] for j in spec["junctions"]]))
            spec["elements"].append({"kind": "ext_grid", "name": "makeup", "junction": at, "p_bar": pump["p_flow_bar"] if at == pump["flow_junction"] else 4.0,
                                     "t_k": 330.0, "type": "p", "in_service": True})
            if rng.random() < 0.5 and at == pump["flow_junction"]:
                spec["elements"].append({"kind": "ext_grid", "name": "makeup2", "junction": at, "p_bar": pump["p_flow_bar"], "t_k": 330.0, "type": "p", "in_service": True})
            if rng.random() < 0.7:
                spec["elements"].append({"kind": "sink", "name": "leak", "junction": str(rng.choice([j["name"] for j in spec["junctions"]])),
                                         "mdot_kg_per_s": float(rng.uniform(0.01, 0.3)), "scaling": 1.0, "in_service": True})
        if rng.random() < 0.4:
            # a line fed by a pressure-only grid: calculated hydraulically, no part of the thermal calculation - its reported flows
            # must balance all the same
            netgen.add_cold_line(spec, rng)
        netgen.relabel(spec, rng, case["labels"])
        opts = solver_configs(rng, False)
        opts["mode"] = str(rng.choice(["hydraulics", "sequential", "bidirectional"]))
        return spec, opts
    spec = netgen.gen_hydraulic(rng, fluid=case["fluid"], n=case["n"], features=case["features"],
                                label_scheme=case["labels"])
    if rng.random() < 0.5:
        spec = netgen.permute_rows(spec, rng)
    opts = solver_configs(rng, spec["fluid"] != "water")
    return spec, opts


def run_transient(case, obs):
    """A transient heat time series (the internal tables are re-used from step to step) with load profiles."""
    from pvmon.props.common import run_transient_series

    def on_step(net):
        mon_c01(net, obs)
        obs.count("transient_steps_monitored")
    spec, _ = run_transient_series(rng_for("C01t", case["seed"], case["i"]), obs, on_step)
    return spec


def run_case(case, ctx):
    if case.get("transient"):
        obs = Obs()
        spec = run_transient(case, obs)
        n = obs.counters.get("transient_steps_monitored", 0)
        rec = {"nontrivial": n >= 2 and obs.counters.get("balances_nonzero_flow", 0) > 0,
               "sample": {"case": case, "net": netgen.spec_summary(spec), "transient_steps_monitored": n}, "evaluations": max(n, 1)}
        rec.update(obs.record())
        return rec
    if case.get("kind") == "repo_suite":
        obs = Obs()
        n = run_suite_case(case, "C01", obs)
        rec = {"nontrivial": n > 0, "sample": {"repo_suite_part": case["part"], "pipeflow_calls_observed": n}, "evaluations": max(n, 1)}
        rec.update(obs.record())
        return rec
    spec, opts = make(case)
    net = netgen.build(spec)
    obs = Obs()
    outcome, exc = run_pipeflow(net, opts)
    obs.count("outcome_" + outcome)
    rec = {}
    if outcome == "ok":
        alpha = float(opts.get("alpha", 1.0)) if opts.get("nonlinear_method") == "constant" else 1.0
        mon_c01(net, obs, final_alpha=alpha, tol_m=opts.get("tol_m", 1e-5))
        obs.count("runs_gas" if net.fluid.is_gas else "runs_liquid")
        obs.count("runs_numba" if opts["use_numba"] else "runs_numpy")
        obs.count("runs_alpha_lt_1" if alpha < 1 else "runs_alpha_1")
        if opts.get("nonlinear_method") == "automatic":
            obs.count("runs_automatic")
        obs.count("runs_friction_" + opts["friction_model"])
        obs.count("runs_labels_" + case["labels"])
        if case.get("loop"):
            obs.count("runs_circulation_pump_loop")
            if opts["mode"] != "hydraulics" and any(j["name"] == "c0" for j in spec["junctions"]):
                obs.count("runs_thermal_mode_with_thermally_unsupplied_part")
            if any(e["name"] == "makeup" for e in spec["elements"]):
                obs.count("runs_ext_grid_in_pump_loop")
        if len(net.junction) >= 300:
            obs.count("runs_large_net")
        rec["nontrivial"] = obs.counters.get("balances_junction_deg>=3", 0) > 0 and \
            obs.counters.get("balances_nonzero_flow", 0) > 0
        if rec["nontrivial"]:
            rec["sample"] = {"case": case, "net": netgen.spec_summary(spec), "options": opts,
                             "junction_balances": sum(v for k, v in obs.counters.items() if k.startswith("balances_j")),
                             "max_abs_imbalance": obs.maxima.get("max_abs_imbalance_kg_per_s")}
    rec.update(obs.record())
    return rec
