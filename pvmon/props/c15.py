"""C15 - saving and loading a network loses nothing."""
import io
import math
import os
import shutil
import tempfile

import numpy as np

from pvmon import netgen
from pvmon.compare import snapshot, diff_snapshots, nonunique_physics
from pvmon.monitors import Obs
from pvmon.props.common import rng_for, run_pipeflow

MANIFEST = {
    "text": "Held on every generated network and storage path: a net written with to_json (string, file, encrypted string) or to_pickle (path) and read back equals the original in every table (columns, dtypes, index labels, values with NaN/None), result tables, fluid (class and every attribute of every property, values at probe points), standard types (user pump curves included), component list, sector, name and user options; a pipeflow on the loaded net gives bit-identical results; multinets and nets holding controllers round-trip as well.",
    "note": "JSON documents sorting of the index, so row order is exempt for the JSON paths; values are compared joined on the index label.",
    "technique": "runtime monitoring: round-trip oracle (deep comparison written by the monitor, not nets_equal) over the four real storage paths + result equivalence of real pipeflows",
}
RULE = ("seeded gas / water / heating nets with every component type, non-contiguous and shuffled indices, custom columns, None/NaN entries, "
        "empty tables, custom fluids with properties of every class, user pump types (from lists and from polynomials), with and without "
        "results, optionally a ConstControl controller, and gas+gas / gas+power multinets with coupling controllers; each stored through "
        "json-string, json-file, encrypted json and pickle; non-trivial = >= 2 paths compared on a net with >= 5 tables; distinct = case hash")
ASSUMPTIONS = ["temporary files live in a scratch directory outside /repo and /verif that is removed after the case"]
CONFIG = {"quick": {"shards": 8, "timeout_s": 600, "cases": 120},
          "thorough": {"shards": 16, "timeout_s": 3000, "cases": 3000}}
REQUIRED_COUNTERS = ["nets_with_non_extrapolating_property", "nets_of_sector_None", "roundtrips_json_string", "roundtrips_json_file", "roundtrips_json_encrypted", "roundtrips_pickle", "tables_compared",
                     "fluid_properties_compared", "std_types_compared", "pipeflow_on_loaded_compared", "nets_with_results", "nets_without_results",
                     "nets_with_custom_fluid", "nets_with_modified_library_fluid", "nets_with_user_pump", "nets_with_controller", "multinets_roundtripped"]
PATHS = ["json_string", "json_file", "json_encrypted", "pickle"]


def gen_cases(tier, seed):
    return [{"seed": seed, "i": i, "kind": ["hyd", "heat", "hyd", "multinet"][i % 4]} for i in range(CONFIG[tier]["cases"])]


def missing(z):
    return z is None or (isinstance(z, float) and math.isnan(z)) or (isinstance(z, np.floating) and np.isnan(z))


def same(a, b):
    if missing(a) and missing(b):
        return True
    if isinstance(a, (list, tuple, np.ndarray)) or isinstance(b, (list, tuple, np.ndarray)):
        try:
            aa, bb = np.asarray(a, dtype=object).ravel().tolist(), np.asarray(b, dtype=object).ravel().tolist()
            return len(aa) == len(bb) and all(same(x, y) for x, y in zip(aa, bb))
        except Exception:
            return False
    if isinstance(a, (float, np.floating)) or isinstance(b, (float, np.floating)):
        try:
            return float(a) == float(b)
        except (TypeError, ValueError):
            return False
    return a == b


def nearly(u, v, rtol=1e-14):
    try:
        u, v = float(u), float(v)
    except (TypeError, ValueError):
        return False
    # pandas writes floats with 15 decimals: absolute rounding error 5e-16, relative 1e-15 for large numbers
    return abs(u - v) <= rtol * max(abs(u), abs(v)) + 0.6e-15


def compare_nets(a, b, obs, path, order_exempt, label=""):
    import pandas as pd
    keys_a = {k for k in a.keys() if isinstance(k, str) and not k.startswith("_")}
    keys_b = {k for k in b.keys() if isinstance(k, str) and not k.startswith("_")}
    if keys_a != keys_b:
        obs.violate("io_entries_differ", "%s%s: entries only in original %s, only in loaded %s" % (label, path, sorted(keys_a - keys_b), sorted(keys_b - keys_a)), path=path)
    for k in sorted(keys_a & keys_b):
        x, y = a[k], b[k]
        if isinstance(x, pd.DataFrame):
            if not isinstance(y, pd.DataFrame):
                obs.violate("io_table_lost", "%s%s: %s is no longer a table" % (label, path, k), path=path)
                continue
            obs.count("tables_compared")
            if k == "controller":
                continue
            if list(x.columns) != list(y.columns):
                obs.violate("io_columns_differ", "%s%s: table %s columns %s -> %s" % (label, path, k, list(x.columns), list(y.columns)), path=path, table=k)
                continue
            dt = {c: (str(x[c].dtype), str(y[c].dtype)) for c in x.columns if x[c].dtype != y[c].dtype}
            if dt:
                obs.violate("io_dtypes_differ", "%s%s: table %s dtypes %s" % (label, path, k, dt), path=path, table=k)
            if str(x.index.dtype) != str(y.index.dtype) and len(x):
                obs.violate("io_index_dtype_differs", "%s%s: table %s index dtype %s -> %s" % (label, path, k, x.index.dtype, y.index.dtype), path=path, table=k)
            ia, ib = list(x.index), list(y.index)
            if (sorted(ia, key=str) != sorted(ib, key=str)) or (not order_exempt and ia != ib):
                obs.violate("io_index_differs", "%s%s: table %s index %s -> %s" % (label, path, k, ia[:8], ib[:8]), path=path, table=k)
                continue
            if len(x):
                y2 = y.loc[ia]
                for c in x.columns:
                    bad = [i for i, (u, v) in zip(ia, zip(x[c].values, y2[c].values)) if not same(u, v)]
                    if bad and path != "pickle" and x[c].dtype.kind == "f" and all(nearly(x[c].loc[i], y2[c].loc[i]) for i in bad):
                        # the JSON text carries 15 significant digits: the last bit of a float may change
                        obs.count("json_last_digit_differences", len(bad))
                        if not any(v["tag"] == "json_float_precision_15_decimals" for v in obs.violations):
                            obs.violate("json_float_precision_15_decimals", "%s%s: table %s column %s: %r -> %r (text precision)"
                                        % (label, path, k, c, float(x[c].loc[bad[0]]), float(y2[c].loc[bad[0]])), path=path, table=k, column=c)
                        continue
                    if bad and path != "pickle" and x[c].dtype.kind == "f" and all(
                            math.isinf(float(x[c].loc[i])) and missing(y2[c].loc[i]) for i in bad):
                        obs.count("json_inf_lost", len(bad))
                        if not any(v["tag"] == "json_inf_becomes_nan" for v in obs.violations):
                            obs.violate("json_inf_becomes_nan", "%s%s: table %s column %s: inf -> NaN" % (label, path, k, c), path=path, table=k, column=c)
                        continue
                    if bad:
                        obs.violate("io_values_differ", "%s%s: table %s column %s differs at %s: %r -> %r"
                                    % (label, path, k, c, bad[:3], x[c].loc[bad[0]], y2[c].loc[bad[0]]), path=path, table=k, column=c)
        elif k == "fluid":
            compare_fluid(x, y, obs, path, label)
        elif k == "std_types":
            obs.count("std_types_compared")
            if {c: sorted(v) for c, v in x.items()} != {c: sorted(v) for c, v in y.items()}:
                obs.violate("io_std_types_differ", "%s%s: standard type names differ" % (label, path), path=path)
                continue
            for comp, d in x.items():
                for name, t in d.items():
                    u = y[comp][name]
                    if hasattr(t, "reg_par"):
                        if type(t).__name__ != type(u).__name__ or not same(list(t.reg_par), list(u.reg_par)) or t.name != u.name:
                            obs.violate("io_std_types_differ", "%s%s: %s type %s changed (%s %s -> %s %s)" % (label, path, comp, name, type(t).__name__, list(t.reg_par), type(u).__name__, list(getattr(u, "reg_par", []))), path=path)
                        v = np.array([0.0, 0.002, 0.01])
                        if not same(list(np.asarray(t.get_pressure(v), float)), list(np.asarray(u.get_pressure(v), float))):
                            obs.violate("io_std_types_differ", "%s%s: pump type %s gives other lifts after loading" % (label, path, name), path=path)
                    elif isinstance(t, dict):
                        if set(t) != set(u) or any(not same(t[q], u[q]) for q in t):
                            obs.violate("io_std_types_differ", "%s%s: %s type %s parameters changed" % (label, path, comp, name), path=path)
        elif k == "component_list":
            if [c.__name__ for c in x] != [c.__name__ for c in y]:
                obs.violate("io_component_list_differs", "%s%s: component list %s -> %s" % (label, path, [c.__name__ for c in x], [c.__name__ for c in y]), path=path)
        elif k == "user_pf_options":
            if dict(x) != dict(y):
                obs.violate("io_user_options_differ", "%s%s: user options %s -> %s" % (label, path, dict(x), dict(y)), path=path)
        elif k in ("name", "sector", "version", "format_version", "converged"):
            if not (x == y or str(x) == str(y)):
                obs.violate("io_attribute_differs", "%s%s: %s %r -> %r" % (label, path, k, x, y), path=path)


def compare_fluid(x, y, obs, path, label=""):
    if x is None and y is None:
        return
    if type(x).__name__ != type(y).__name__ or x.name != y.name or getattr(x, "fluid_type", None) != getattr(y, "fluid_type", None) \
            or x.is_gas != y.is_gas:
        obs.violate("io_fluid_differs", "%s%s: fluid %s/%s -> %s/%s" % (label, path, x.name, getattr(x, "fluid_type", None), y.name, getattr(y, "fluid_type", None)), path=path)
        return
    if sorted(x.all_properties) != sorted(y.all_properties):
        obs.violate("io_fluid_differs", "%s%s: fluid properties %s -> %s" % (label, path, sorted(x.all_properties), sorted(y.all_properties)), path=path)
        return
    probe = np.array([250.0, 293.15, 333.3, 420.0])
    for pn, p in x.all_properties.items():
        q = y.all_properties[pn]
        obs.count("fluid_properties_compared")
        if type(p).__name__ != type(q).__name__:
            obs.violate("io_fluid_differs", "%s%s: property %s class %s -> %s" % (label, path, pn, type(p).__name__, type(q).__name__), path=path)
            continue
        for attr, v in vars(p).items():
            if attr == "prop_getter" or callable(v):
                continue
            if not same(v, getattr(q, attr, "<missing>")):
                obs.violate("io_fluid_differs", "%s%s: property %s attribute %s %r -> %r" % (label, path, pn, attr, v, getattr(q, attr, "<missing>")), path=path)
        try:
            va, vb = np.asarray(p.get_at_value(probe), float), np.asarray(q.get_at_value(probe), float)
            if not same(list(va.ravel()), list(vb.ravel())):
                obs.violate("io_fluid_differs", "%s%s: property %s gives other values after loading (%s -> %s)" % (label, path, pn, va, vb), path=path)
        except Exception as e:
            obs.count("fluid_property_probe_failed_" + type(e).__name__)


def roundtrip(net, path, scratch, multinet=False):
    import pandapipes as pp
    if path == "json_string":
        return pp.from_json_string(pp.to_json(net))
    if path == "json_encrypted":
        return pp.from_json_string(pp.to_json(net, encryption_key="s3cret"), encryption_key="s3cret")
    if path == "json_file":
        f = os.path.join(scratch, "net.json")
        pp.to_json(net, f)
        return pp.from_json(f)
    f = os.path.join(scratch, "net.p")
    pp.to_pickle(net, f)
    return pp.from_pickle(f)


def make_net(case, obs):
    import pandapipes as pp
    from pandapipes.properties import fluids as fl
    rng = rng_for("C15", case["seed"], case["i"])
    if case["kind"] == "heat":
        spec = netgen.gen_heating(rng)
    else:
        spec = netgen.gen_hydraulic(rng, fluid=str(rng.choice(["water", "lgas", "hydrogen"])),
                                    features=("valves", "pi_valves", "pump", "compressor", "flow_control", "press_control", "heat_exchanger",
                                              "mass_storage", "multi_grid", "oos", "std_pipes"), max_sections=3)
        ctrl = {e["controlled_junction"] for e in spec["elements"] if e["kind"] == "press_control"}
        spec["elements"] = [e for e in spec["elements"] if not (e["kind"] == "ext_grid" and e["junction"] in ctrl)]
        spec["elements"].sort(key=lambda e: e["kind"] == "press_control")
    netgen.relabel(spec, rng, str(rng.choice(["contiguous", "shuffled", "gaps", "large"])))
    if rng.random() < 0.5:
        spec = netgen.permute_rows(spec, rng)
    r_ = rng.random()
    if r_ < 0.35:
        # nets of another sector than the default: NONE (components added one by one), or the sector of the fluid
        spec["sector"] = "None" if r_ < 0.2 else ("heat" if case["kind"] == "heat" else ("water" if spec["fluid"] == "water" else "gas"))
        obs.count("nets_of_sector_" + spec["sector"])
    net = netgen.build(spec)
    net.name = "net %d" % case["i"]
    # None names, custom columns, geodata
    if rng.random() < 0.6:
        net.junction.loc[net.junction.index[::2], "name"] = None
        net.pipe["custom_col"] = ["x%d" % i if i % 2 else None for i in range(len(net.pipe))]
        net.junction["custom_num"] = rng.uniform(0, 1, len(net.junction))
        for i, j in enumerate(net.junction.index[:3]):
            net.junction_geodata.loc[j, ["x", "y"]] = (float(i), float(2 * i))
    if rng.random() < 0.5:
        # custom fluid with properties of every class
        props = dict(net.fluid.all_properties)
        f2 = fl.Fluid("myfluid%d" % case["i"], net.fluid.fluid_type, **props)
        f2.add_property("lin", fl.FluidPropertyLinear(float(rng.uniform(-1, 1)), float(rng.uniform(0, 5))))
        f2.add_property("poly", fl.FluidPropertyPolynominal([250, 300, 350, 400], list(rng.uniform(1, 9, 4)), 2))
        f2.add_property("suth", fl.FluidPropertySutherland(1.7e-5, 273.0, 111.0))
        f2.add_property("const", fl.FluidPropertyConstant(float(rng.uniform(1, 9))))
        f2.add_property("tab", fl.FluidPropertyInterExtra(np.array([260.0, 300.0, 380.0]), rng.uniform(1, 9, 3)))
        # the documented second method: interpolation without extrapolation
        f2.add_property("tab_no_extrapolation", fl.FluidPropertyInterExtra(np.array([260.0, 300.0, 380.0]), rng.uniform(1, 9, 3), method="interpolate"))
        obs.count("nets_with_non_extrapolating_property")
        net.fluid = f2
        obs.count("nets_with_custom_fluid")
    elif rng.random() < 0.6:
        # a library fluid (name unchanged) whose properties the user overwrote / extended
        if not net.fluid.is_gas and rng.random() < 0.5:
            pp.create_constant_property(net, "viscosity", float(rng.uniform(4e-4, 1.2e-3)))
        pp.create_linear_property(net, "my_extra", float(rng.uniform(-1, 1)), float(rng.uniform(0, 5)))
        if rng.random() < 0.5:
            pp.create_constant_property(net, "heat_capacity", float(rng.uniform(3900, 4300) if not net.fluid.is_gas else rng.uniform(1900, 2400)))
        obs.count("nets_with_modified_library_fluid")
    if rng.random() < 0.5 and not net.fluid.is_gas:
        jj = list(net.junction.index)
        pp.create_pump_from_parameters(net, jj[0], jj[-1], "userpump%d" % case["i"], pressure_list=[6.0, 5.0, 3.5], flowrate_list=[0, 30, 90],
                                       reg_polynomial_degree=2, in_service=False, name="user_pump")
        obs.count("nets_with_user_pump")
    if rng.random() < 0.5:
        pp.set_user_pf_options(net, friction_model="colebrook", tol_p=1e-6, max_iter_hyd=77)
    # tight step tolerances: both sides are solutions, not iterates; the residual bound stays above its round-off floor (~1e-9 for
    # thermal residuals in W), otherwise the outcome itself is round-off luck; the inner Colebrook iteration (stored user option
    # in half of the nets) is run to its fixed point - with its default tolerance of 1e-4 lambda is a step function of the flow
    opts = dict(netgen.TIGHT, tol_res=1e-6, tolerance_colebrook=1e-12, max_iter_colebrook=200, mode="sequential" if case["kind"] == "heat" else "hydraulics")
    with_results = rng.random() < 0.7
    if with_results:
        out, _ = run_pipeflow(net, opts)
        obs.count("nets_with_results" if out == "ok" else "nets_result_run_failed")
    else:
        obs.count("nets_without_results")
    if rng.random() < 0.4 and "sink" in net and len(net.sink):
        try:
            import pandas as pd
            from pandapower.control import ConstControl
            from pandapower.timeseries import DFData
            ds = DFData(pd.DataFrame({"s": rng.uniform(0.01, 0.1, 4)}))
            ConstControl(net, element="sink", variable="mdot_kg_per_s", element_index=[int(net.sink.index[0])], data_source=ds, profile_name=["s"])
            obs.count("nets_with_controller")
        except Exception as e:
            obs.count("controller_setup_failed_" + type(e).__name__)
    return net, opts, spec


def run_case(case, ctx):
    import pandapipes as pp
    obs = Obs()
    scratch = tempfile.mkdtemp(prefix="pvio_")
    compared = 0
    sample = None
    try:
        if case["kind"] == "multinet":
            from pandapipes.multinet.create_multinet import create_empty_multinet, add_net_to_multinet
            import pandapower as ppower
            import pandapower.networks as pn
            rng = rng_for("C15m", case["seed"], case["i"])
            mn = create_empty_multinet("multi %d" % case["i"])
            g1 = netgen.build(netgen.gen_hydraulic(rng, fluid="lgas", features=("valves",)))
            g2 = netgen.build(netgen.gen_hydraulic(rng, fluid="hydrogen", features=("multi_grid",)))
            pw = pn.example_simple()
            add_net_to_multinet(mn, g1, "gas")
            add_net_to_multinet(mn, g2, "gas2")
            add_net_to_multinet(mn, pw, "power")
            try:
                from pandapipes.multinet.control.controller.multinet_control import P2GControlMultiEnergy
                if len(pw.load) and len(g1.source) == 0:
                    pp.create_source(g1, int(g1.junction.index[1]), 0.0, name="p2g_src")
                P2GControlMultiEnergy(mn, int(pw.load.index[0]), int(g1.source.index[0]), efficiency=0.7, name_power_net="power", name_gas_net="gas")
                obs.count("nets_with_controller")
            except Exception as e:
                obs.count("multinet_controller_setup_failed_" + type(e).__name__)
            for path in PATHS:
                try:
                    mn2 = roundtrip(mn, path, scratch, multinet=True)
                except Exception as e:
                    obs.violate("io_roundtrip_raises", "multinet %s raised %s: %s" % (path, type(e).__name__, str(e)[:150]), path=path)
                    continue
                obs.count("roundtrips_" + path)
                obs.count("multinets_roundtripped")
                compared += 1
                if sorted(mn["nets"]) != sorted(mn2["nets"]) or mn.name != mn2.name:
                    obs.violate("io_multinet_members_differ", "multinet %s: members %s -> %s" % (path, sorted(mn["nets"]), sorted(mn2["nets"])), path=path)
                    continue
                for nm in ("gas", "gas2"):
                    compare_nets(mn["nets"][nm], mn2["nets"][nm], obs, path, order_exempt=path != "pickle", label="multinet member %s " % nm)
                if len(mn.controller) != len(mn2.controller) or [type(o).__name__ for o in mn.controller.object] != [type(o).__name__ for o in mn2.controller.object]:
                    obs.violate("io_controller_differs", "multinet %s: controllers %s -> %s" % (path, [type(o).__name__ for o in mn.controller.object],
                                                                                               [type(o).__name__ for o in mn2.controller.object]), path=path)
                if not ppower.nets_equal(mn["nets"]["power"], mn2["nets"]["power"]):
                    obs.violate("io_power_member_differs", "multinet %s: power member differs after loading" % path, path=path)
            sample = {"case": case, "members": sorted(mn["nets"]), "paths": PATHS}
        else:
            net, opts, spec = make_net(case, obs)
            ref_out = None
            for path in PATHS:
                try:
                    net2 = roundtrip(net, path, scratch)
                except Exception as e:
                    obs.violate("io_roundtrip_raises", "%s raised %s: %s" % (path, type(e).__name__, str(e)[:150]), path=path)
                    continue
                obs.count("roundtrips_" + path)
                compared += 1
                compare_nets(net, net2, obs, path, order_exempt=path != "pickle")
                if "controller" in net and len(net.controller):
                    o1 = [type(o).__name__ for o in net.controller.object]
                    o2 = [type(o).__name__ for o in net2.controller.object] if "controller" in net2 else []
                    if o1 != o2:
                        obs.violate("io_controller_differs", "%s: controllers %s -> %s" % (path, o1, o2), path=path)
                    else:
                        for c1, c2 in zip(net.controller.object, net2.controller.object):
                            for attr in ("element", "variable", "element_index", "profile_name"):
                                if not same(getattr(c1, attr, None), getattr(c2, attr, None)):
                                    obs.violate("io_controller_differs", "%s: controller attribute %s %r -> %r" % (path, attr, getattr(c1, attr, None), getattr(c2, attr, None)), path=path)
                # pipeflow on the loaded net equals pipeflow on (a copy of) the original
                import copy
                n1 = copy.deepcopy(net)
                o1, _ = run_pipeflow(n1, opts)
                o2, _ = run_pipeflow(net2, opts)
                obs.count("pipeflow_on_loaded_compared")
                if o1 != o2 and path != "pickle" and "not_converged" in (o1, o2):
                    # text formats round the inputs in the 15th decimal (listed finding); a Newton iteration that wanders for a hundred
                    # steps is sensitive to that, so that one side may run out of budget: a consequence of the rounding, judged there
                    obs.count("outcome_differs_after_rounded_inputs_not_judged")
                elif o1 != o2:
                    obs.violate("io_pipeflow_outcome_differs", "%s: pipeflow %s on the original, %s on the loaded net" % (path, o1, o2), path=path)
                elif o1 == "ok":
                    for k in [k for k in n1.keys() if isinstance(k, str) and k.startswith("res_") and hasattr(n1[k], "columns") and len(n1[k])]:
                        a, b = n1[k], net2[k].loc[n1[k].index]
                        if list(a.columns) != list(b.columns) or (path == "pickle" and not all(same(u, v) for u, v in zip(a.values.ravel(), b.values.ravel()))):
                            obs.violate("io_pipeflow_results_differ", "%s: %s differs between original and loaded net" % (path, k), path=path, table=k)
                    if path != "pickle":
                        # text formats round inputs at the 15th decimal (listed finding): the results are compared the way two
                        # runs are compared everywhere else, with the conditioning rules of pvmon.compare
                        sa, sb = snapshot(n1), snapshot(net2)
                        if not (nonunique_physics(sa) or nonunique_physics(sb)):
                            d, nv, md = diff_snapshots(sa, sb, rtol=1e-7, atol=1e-9)
                            if d:
                                obs.violate("io_pipeflow_results_differ", "%s: %d of %d result values differ between original and loaded net, first res_%s[%s].%s %s"
                                            % (path, len(d), nv, d[0][0], d[0][1], d[0][2], d[0][3]), path=path, table="res_" + str(d[0][0]))
                            break
            sample = {"case": case, "net": netgen.spec_summary(spec), "paths": PATHS, "tables": sorted(k for k in net.keys() if hasattr(net[k], "columns"))[:12]}
    finally:
        shutil.rmtree(scratch, ignore_errors=True)
    rec = {"nontrivial": compared >= 2, "sample": sample}
    rec.update(obs.record())
    return rec
