"""C10 - temperatures obey the pipe cooling law, energy-conserving mixing and fixed feeds."""
from pvmon import netgen
from pvmon.monitors import Obs, mon_c10
from pvmon.props.common import suite_cases, run_suite_case, rng_for, run_thermal

MANIFEST = {
    "text": "Held on every returned thermal solution of the seeded workload: per flowing pipe section the exponential cooling law (reverse flow included), per junction the energy-conserving mixing law with mean heat capacities, feeder / circulation-pump temperatures, and - in nets without heat sources - min/max bounds; residuals <= 1e-6 K / 1e-6 relative on tight solves.",
    "note": "Section values of multi-section pipes are read from the solver's tables; heat capacities come from the public Fluid API; junctions holding an ext grid are exempt from the mixing law.",
    "technique": "runtime monitoring: cooling-law, mixing-law and bound oracles on result tables after every real thermal pipeflow",
}
RULE = ("seeded passive hot-water meshes (1-2 pt feeders, meshes with reverse flow, 1-3 sections, U 0-25 W/m2K, per-pipe "
        "ambient temperature) and district-heating loops (all consumer modes, exchangers, both pump types), solved in "
        "modes sequential, bidirectional and heat, numba on/off, tight and default tolerances; non-trivial = run returned "
        "and >= 3 flowing pipe sections and >= 1 mixing junction were judged; distinct = case parameter hash")
ASSUMPTIONS = ["a thermal stage that refuses a net (a t/pt grid receiving flow) is counted as not comparable"]
CONFIG = {"quick": {"shards": 8, "timeout_s": 600, "cases": 360},
          "thorough": {"shards": 16, "timeout_s": 3000, "cases": 8000}}
REQUIRED_COUNTERS = ["runs_with_thermally_unsupplied_part", "cooling_sections_forward", "cooling_sections_reverse", "cooling_multi_section_pipes",
                     "mixing_junctions_2_inflows", "mixing_junctions_3plus_inflows", "fixed_feed_temperatures",
                     "pump_outlet_temperatures", "temperature_bounds_checked", "runs_sequential", "runs_bidirectional",
                     "runs_heat", "pipe_outlet_vs_last_section"]
MODES = ["sequential", "bidirectional", "heat"]


def gen_cases(tier, seed):
    _cases = [{"seed": seed, "i": i, "kind": "passive" if i % 2 == 0 else "loop", "mode": MODES[(i // 2) % 3], "numba": bool((i // 6) % 2), "tight": bool(i % 5 != 4)} for i in range(CONFIG[tier]["cases"])]
    if tier == "thorough":
        _cases = list(_cases) + suite_cases()
    return _cases


def make(case):
    rng = rng_for("C10", case["seed"], case["i"])
    if case["kind"] == "passive":
        spec = netgen.gen_thermal_mesh(rng)
    else:
        modes = netgen.CONSUMER_MODES if case["mode"] == "bidirectional" else ["MF_DT", "MF_TR", "QE_MF"]
        spec = netgen.gen_heating(rng, modes=modes, u_max=8.0)
        if rng.random() < 0.3:
            netgen.add_cold_line(spec, rng)      # hydraulically supplied, no temperature source: no part of the thermal calculation
    opts = {"use_numba": case["numba"], "iter": 200}
    if case["tight"]:
        opts.update(tol_p=1e-10, tol_m=1e-10, tol_res=1e-9, tol_T=1e-9)
    return spec, opts


def run_case(case, ctx):
    if case.get("kind") == "repo_suite":
        obs = Obs()
        n = run_suite_case(case, "C10", obs)
        rec = {"nontrivial": n > 0, "sample": {"repo_suite_part": case["part"], "pipeflow_calls_observed": n}, "evaluations": max(n, 1)}
        rec.update(obs.record())
        return rec
    spec, opts = make(case)
    net = netgen.build(spec)
    obs = Obs()
    outcome, exc = run_thermal(net, case["mode"], opts)
    obs.count("outcome_" + outcome)
    rec = {"nontrivial": False}
    if outcome == "ok":
        mon_c10(net, obs, opts, passive=case["kind"] == "passive")
        obs.count("runs_" + case["mode"])
        if any(j["name"] == "c0" for j in spec["junctions"]):
            obs.count("runs_with_thermally_unsupplied_part")
        secs = obs.counters.get("cooling_sections_forward", 0) + obs.counters.get("cooling_sections_reverse", 0)
        mix = sum(v for k, v in obs.counters.items() if k.startswith("mixing_junctions"))
        rec["nontrivial"] = secs >= 3 and mix >= 1
        if rec["nontrivial"]:
            rec["sample"] = {"case": case, "net": netgen.spec_summary(spec), "sections_judged": secs, "mixing_junctions": mix,
                             "max_abs_cooling_residual_k": obs.maxima.get("max_abs_cooling_residual_k")}
    rec.update(obs.record())
    return rec
