"""C11 - heat exchangers, consumers and circulation pumps report consistent heat duties."""
from pvmon import netgen
from pvmon.monitors import Obs, mon_c11
from pvmon.props.common import suite_cases, run_suite_case, rng_for, run_thermal

MANIFEST = {
    "text": "Held (up to the listed known finding) on every returned thermal solution of generated district-heating loops: Q = mdot * mean cp * temperature drop for every exchanger and consumer, the two prescribed consumer quantities equal their set-points whenever the mass flow is prescribed or the run is bidirectional, and the circulation pump's reported heat closes the loop balance within the heat-capacity discretisation.",
    "note": "Loop closure tolerance = relative cp spread over the loop's temperature range; only single-pump loops without ext grids are judged for closure.",
    "technique": "runtime monitoring: energy-balance and set-point oracles on result tables after every real thermal pipeflow",
}
RULE = ("seeded district-heating loops (1-8 consumers in all five specification modes, flow-controlled heat exchangers with "
        "positive and negative heat, pressure and mass circulation pumps or a pt/p grid pair, meshes, 1-4 sections, heat "
        "loss) solved in sequential and bidirectional mode, numba on/off, tight tolerances; non-trivial = run returned and "
        ">= 2 duties were judged; distinct = case parameter hash")
ASSUMPTIONS = ["heat capacities come from the public Fluid API"]
CONFIG = {"quick": {"shards": 8, "timeout_s": 600, "cases": 320},
          "thorough": {"shards": 16, "timeout_s": 3000, "cases": 8000}}
REQUIRED_COUNTERS = ["runs_with_return_admixing_at_the_pump", "circ_pump_own_duty_checks", "runs_with_thermally_unsupplied_part", "transient_steps_monitored", "exchanger_duties", "exchanger_duties_negative", "exchanger_duties_reverse_flow", "consumer_duties_MF_DT_sequential",
                     "consumer_duties_MF_TR_sequential", "consumer_duties_QE_MF_sequential",
                     "consumer_duties_QE_DT_bidirectional", "consumer_duties_QE_TR_bidirectional",
                     "consumer_setpoints_checked", "loop_closures"]


def worker_init(ctx):
    from pvmon.props.common import transient_init
    transient_init()


def gen_cases(tier, seed):
    _cases = [{"seed": seed, "i": i, "mode": "bidirectional" if i % 2 else "sequential", "numba": bool((i // 2) % 2), "source": ["cpp", "cpm", "grid", "cpp"][(i // 4) % 4]} for i in range(CONFIG[tier]["cases"])]
    for c in _cases:
        if c["i"] % 20 == 9:
            c["transient"] = True
    if tier == "thorough":
        _cases = list(_cases) + suite_cases()
    return _cases


def make(case):
    rng = rng_for("C11", case["seed"], case["i"])
    spec = netgen.gen_heating(rng, n=int(rng.integers(2, 9)), source=case["source"], negative_heat=True, u_max=5.0)
    # exchangers entered against the flow direction (negative reported flow): the duty relation must hold all the same
    for e in spec["elements"]:
        if e["kind"] == "heat_exchanger" and rng.random() < 0.4:
            e["from_junction"], e["to_junction"] = e["to_junction"], e["from_junction"]
    pumps = [e for e in spec["elements"] if e["kind"].startswith("circ_pump")]
    if pumps and rng.random() < 0.3:
        # return admixing: a flow controller leads return water into the pump's flow junction (a second inflow at another temperature)
        rj = [j["name"] for j in spec["junctions"] if j["name"].startswith("r")]
        spec["elements"].append({"kind": "flow_control", "name": "admix", "from_junction": str(rng.choice(rj)), "to_junction": pumps[0]["flow_junction"],
                                 "controlled_mdot_kg_per_s": float(rng.uniform(0.05, 0.4)), "control_active": True, "in_service": True})
    if rng.random() < 0.25:
        netgen.add_cold_line(spec, rng)      # hydraulically supplied, no temperature source: no part of the thermal calculation
    opts = {"use_numba": case["numba"], "iter": 200, "tol_p": 1e-10, "tol_m": 1e-10, "tol_res": 1e-9, "tol_T": 1e-9}
    return spec, opts


def run_case(case, ctx):
    if case.get("kind") == "repo_suite":
        obs = Obs()
        n = run_suite_case(case, "C11", obs)
        rec = {"nontrivial": n > 0, "sample": {"repo_suite_part": case["part"], "pipeflow_calls_observed": n}, "evaluations": max(n, 1)}
        rec.update(obs.record())
        return rec
    if case.get("transient"):
        # transient time series with profiles on every prescribed consumer quantity: the internal structures are kept between the
        # steps, each step must still report its own set-points and consistent duties (loop closure needs a steady state: not judged)
        from pvmon.props.common import run_transient_series
        obs = Obs()
        steps = []

        def on_step(net):
            o = dict(net["_options"])
            mon_c11(net, obs, o, o.get("mode"), transient=True)
            steps.append(1)
            obs.count("transient_steps_monitored")
        spec, o = run_transient_series(rng_for("C11t", case["seed"], case["i"]), obs, on_step, heating_only=True, modes=netgen.CONSUMER_MODES)
        n = sum(v for k, v in obs.counters.items() if k.startswith(("exchanger_duties", "consumer_duties")))
        rec = {"nontrivial": len(steps) >= 2 and n >= 2, "evaluations": max(len(steps), 1),
               "sample": {"case": case, "net": netgen.spec_summary(spec), "options": o, "transient_steps_monitored": len(steps), "duties_judged": n}}
        rec.update(obs.record())
        return rec
    spec, opts = make(case)
    net = netgen.build(spec)
    obs = Obs()
    outcome, exc = run_thermal(net, case["mode"], opts)
    obs.count("outcome_" + outcome)
    rec = {"nontrivial": False}
    if outcome == "ok":
        mon_c11(net, obs, opts, case["mode"])
        if any(j["name"] == "c0" for j in spec["junctions"]):
            obs.count("runs_with_thermally_unsupplied_part")
        if any(e["name"] == "admix" for e in spec["elements"]):
            obs.count("runs_with_return_admixing_at_the_pump")
        n = sum(v for k, v in obs.counters.items() if k.startswith(("exchanger_duties", "consumer_duties")))
        rec["nontrivial"] = n >= 2
        if rec["nontrivial"]:
            rec["sample"] = {"case": case, "net": netgen.spec_summary(spec), "duties_judged": n,
                             "loop_closures": obs.counters.get("loop_closures", 0)}
    rec.update(obs.record())
    return rec
