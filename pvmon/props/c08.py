"""C08 - the solution is independent of initial guesses and of the damping strategy."""
import copy
import math

from pvmon import netgen
from pvmon.compare import snapshot, diff_snapshots, nonunique_physics
from pvmon.monitors import Obs, mon_c01, mon_c02, mon_c10
from pvmon.props.common import rng_for, run_thermal

MANIFEST = {
    "text": "Held on every generated network: converged runs of one physical network started from redrawn junction start pressures (pn_bar), from redrawn start temperatures (tfluid_k, only where it is a pure start value) and with constant vs automatic damping (alpha 1) agree within rtol 1e-7 on tight solves.",
    "note": "tfluid_k is a parameter of the hydraulic stage (density, viscosity), so it is perturbed only in bidirectional mode, in heat mode on a fixed hydraulic solution, and in sequential mode on nets whose flows are fixed by loads alone; nets with a flow-less pump/compressor are not comparable; non-convergent starts are skipped as the statement says.",
    "technique": "runtime monitoring: metamorphic oracle (perturb start values / switch damping strategy) comparing result tables of real runs",
}
RULE = ("seeded random gas/water nets (pn_bar redrawn in 0.5-20 bar / 0.9-3 bar for gases) and heating loops / passive meshes "
        "(tfluid_k redrawn 290-380 K in bidirectional and heat mode), each solved from 3 start assignments alternating constant and "
        "automatic damping; non-trivial = reference and >= 1 variant converged with >= 20 values compared; distinct = case hash")
ASSUMPTIONS = ["a start assignment from which the solver does not converge is skipped (counted)"]
CONFIG = {"quick": {"shards": 8, "timeout_s": 600, "cases": 220},
          "thorough": {"shards": 16, "timeout_s": 3000, "cases": 5000}}
REQUIRED_COUNTERS = ["variants_compared_pn_bar", "variants_compared_tfluid_bidirectional", "variants_compared_tfluid_heat",
                     "variants_compared_damping", "variants_compared_gas", "variants_compared_press_control_in_reduced_net"]


def gen_cases(tier, seed):
    return [{"seed": seed, "i": i, "kind": ["hyd", "hyd", "bidir", "heat"][i % 4]} for i in range(CONFIG[tier]["cases"])]


def run_case(case, ctx):
    rng = rng_for("C08", case["seed"], case["i"])
    obs = Obs()
    kind = case["kind"]
    if kind == "hyd":
        fluid = str(rng.choice(["water", "lgas", "hydrogen"]))
        spec = netgen.gen_hydraulic(rng, fluid=fluid, features=[("valves", "pi_valves"), ("multi_grid", "mass_storage"), ("flow_control", "heat_exchanger"),
                                                               ("press_control", "islands"), ("press_control", "valves", "oos", "islands")][int(rng.integers(5))],
                                    max_sections=3)
        mode = "hydraulics"
    else:
        spec = netgen.gen_heating(rng, modes=netgen.CONSUMER_MODES if kind == "bidir" else ["MF_DT", "MF_TR", "QE_MF"]) \
            if rng.random() < 0.7 else netgen.gen_thermal_mesh(rng)
        fluid = "water"
        mode = "bidirectional" if kind == "bidir" else "heat"
    base_opts = dict(netgen.TIGHT, use_numba=bool(rng.random() < 0.5))
    net = netgen.build(spec)
    out, _ = run_thermal(net, mode, dict(base_opts, nonlinear_method="constant"))
    rec = {"nontrivial": False}
    if out != "ok":
        obs.count("reference_not_converged")
        rec.update(obs.record())
        return rec
    s0 = snapshot(net)
    if nonunique_physics(s0):
        obs.count("reference_not_comparable_zero_flow_pump")
        rec.update(obs.record())
        return rec
    total = 0
    for v in range(3):
        var = copy.deepcopy(spec)
        what = []
        if kind == "hyd" or rng.random() < 0.5:
            lo, hi = (0.5, 20.0) if fluid == "water" else (0.9, 3.0)
            for j in var["junctions"]:
                j["pn_bar"] = float(rng.uniform(lo, hi))
            what.append("pn_bar")
        if kind != "hyd":
            for j in var["junctions"]:
                j["tfluid_k"] = float(rng.uniform(290, 380))
            what.append("tfluid_" + ("bidirectional" if kind == "bidir" else "heat"))
        method = "automatic" if v % 2 == 0 else "constant"
        vnet = netgen.build(var)
        if kind == "heat":
            # heat mode on a FIXED hydraulic solution: hydraulics of the unperturbed description, temperatures perturbed after
            import numpy as np
            hnet = netgen.build(spec)
            o, _ = run_thermal(hnet, "hydraulics", dict(base_opts))
            if o != "ok":
                obs.count("variant_not_converged")
                continue
            from pandapipes.idx_node import PINIT
            from pandapipes.idx_branch import MDOTINIT
            sol = np.concatenate((hnet._pit["node"][:, PINIT], hnet._pit["branch"][:, MDOTINIT]))
            hnet.junction["tfluid_k"] = netgen.by_name(vnet, "junction")["tfluid_k"].reindex(hnet.junction["name"].values).values
            from pvmon.props.common import run_pipeflow
            hyd_tables = {k: hnet[k].copy() for k in list(hnet.keys()) if isinstance(k, str) and k.startswith("res_")}
            o, _ = run_pipeflow(hnet, dict(base_opts, mode="heat", sol_vec=sol, nonlinear_method=method))
            if o != "ok":
                obs.count("variant_not_converged")
                continue
            for k, df in hyd_tables.items():
                if len(df):
                    hnet[k] = hnet[k].combine_first(df)[list(hnet[k].columns)]
            vnet = hnet
            # reference for heat mode: same procedure without perturbation is the sequential result s0
        else:
            o, _ = run_thermal(vnet, mode, dict(base_opts, nonlinear_method=method))
            if o != "ok":
                obs.count("variant_not_converged")
                continue
        from pvmon import compare
        compare.STATS.clear()
        sv = snapshot(vnet)
        d, n, md = diff_snapshots(s0, sv, rtol=1e-7, atol=1e-9, col_atol={"qext_w": 1e-3, "t_k": 1e-7, "t_from_k": 1e-7,
                                                                         "t_to_k": 1e-7, "t_outlet_k": 1e-7, "deltat_k": 1e-7})
        other_side = bool(compare.STATS.get("not_comparable_other_side_of_machine_law"))
        if (d or other_side) and kind != "heat":
            # Two converged runs that differ: either one of them is no solution (violation) or the network has several
            # solutions.  The latter is decided by the law monitors: both runs conserve mass, obey the momentum law (and the
            # thermal laws), and they differ in the direction of a flow or in the side of a pump / compressor law.
            flipped = [(t, nm) for t, rows in s0.items() for nm, r in rows.items()
                       if "mdot_from_kg_per_s" in r and nm in sv.get(t, {}) and r["mdot_from_kg_per_s"] * sv[t][nm]["mdot_from_kg_per_s"] < 0
                       and min(abs(r["mdot_from_kg_per_s"]), abs(sv[t][nm]["mdot_from_kg_per_s"])) > 1e-6]
            lawful = True
            for n_ in (net, vnet):
                o2 = Obs()
                mopts = dict(base_opts, mode=mode)
                mon_c01(n_, o2)
                mon_c02(n_, o2, mopts)
                if mode == "bidirectional":
                    mon_c10(n_, o2, mopts)
                lawful = lawful and not o2.violations
            if lawful and flipped:
                obs.violate("several_valid_solutions", "perturbed %s, damping %s: two converged runs differ in the direction of %d flows (first %s) and both "
                            "satisfy mass balance, momentum%s laws: the network has several solutions, the start values decide which one is found"
                            % (what, method, len(flipped), flipped[0], " and thermal" if mode == "bidirectional" else ""),
                            perturbed=what, damping=method, flipped=[list(x) for x in flipped[:6]], machine_law_side=other_side)
                d = []
            elif other_side:
                d = [("pump/compressor", "-", "side of the machine law", "differs although a law monitor rejects one of the runs")]
        total += n
        for w in what:
            obs.count("variants_compared_" + w)
        if method == "automatic":
            obs.count("variants_compared_damping")
        if fluid != "water":
            obs.count("variants_compared_gas")
        obs.maxi("max_rel_dev", md)
        if any(e["kind"] == "press_control" for e in spec["elements"]) and any(math.isnan(r["p_bar"]) for r in s0["junction"].values()):
            obs.count("variants_compared_press_control_in_reduced_net")
        if d:
            obs.violate("solution_depends_on_start_values" if what else "solution_depends_on_damping",
                        "perturbed %s, damping %s: %d of %d values differ, first res_%s[%s].%s %s"
                        % (what, method, len(d), n, d[0][0], d[0][1], d[0][2], d[0][3]), perturbed=what, damping=method,
                        differing=[list(x[:4]) for x in d[:8]])
    rec["nontrivial"] = total >= 20
    if rec["nontrivial"]:
        rec["sample"] = {"case": case, "net": netgen.spec_summary(spec), "mode": mode, "values_compared": total}
    rec.update(obs.record())
    return rec
