"""C03 - prescribed pressures, flows, lifts and ratios are met exactly."""
from pvmon import netgen
from pvmon.monitors import Obs, mon_c03
from pvmon.props.common import suite_cases, run_suite_case, rng_for, run_pipeflow

MANIFEST = {
    "text": "Held on every returned pipeflow of the seeded workload: every prescribed boundary value (mean ext-grid / pump flow pressure, controller set-points, prescribed mass flows, pressure-pump lift, compressor ratio, pump curve at the reported volume flow, scaled loads) is reproduced within 1e-9 (identities) / 1e-7 bar (lifts, tight solves).",
    "note": "Hydrostatic correction uses the mean density at the element's reported temperatures; the pump curve is re-evaluated by the monitor from the regression parameters of the standard type.",
    "technique": "runtime monitoring: set-point identities asserted on result tables after every real pipeflow on generated networks",
}
RULE = ("seeded random gas/water networks with 1-3 pumps of different library types and compressors, each optionally with an out-of-service stand-by twin of another type placed before or after it in the table, active/inactive flow controllers, "
        "local and remote pressure controllers, one to three ext grids (also several on one junction, in/out of "
        "service), sinks/sources/storages with scaling, heights 0-60 m, temperatures 283-353 K, plus small heating "
        "loops with mass and pressure circulation pumps; every 40th case a transient heat time series (start pressures differing from every prescribed pressure, each step monitored through hook H1); non-trivial = the run returned and at least 3 set-point "
        "identities of at least 2 kinds were judged; distinct = case parameter hash")
ASSUMPTIONS = ["reported t_from_k / t_outlet_k are the temperatures the hydraulic law used (C02 checks that)"]
CONFIG = {"quick": {"shards": 8, "timeout_s": 600, "cases": 560},
          "thorough": {"shards": 16, "timeout_s": 3000, "cases": 12000}}
REQUIRED_COUNTERS = ["fixed_pressure_ext_grid", "fixed_pressure_several", "fixed_pressure_circ_pump",
                     "press_control_setpoints", "press_control_setpoints_remote", "prescribed_flow_flow_control",
                     "prescribed_flow_circ_pump_mass", "press_control_setpoints_in_reduced_net", "lift_circ_pump_pressure", "compressor_forward",
                     "pump_curve_forward", "pump_lift_momentum", "nets_with_standby_machines", "load_reports_sink", "load_reports_source",
                     "load_reports_mass_storage", "transient_steps_monitored"]
FEATS = [("pump", "multi_pump", "multi_grid", "mass_storage"), ("compressor", "multi_pump", "multi_grid"), ("flow_control", "valves", "mass_storage"),
         ("press_control", "multi_grid", "islands"), ("pump", "compressor", "multi_pump", "press_control", "flow_control", "multi_grid", "mass_storage", "oos")]
FLUIDS = ["water", "lgas", "water", "hydrogen", "water", "hgas", "methane"]


def worker_init(ctx):
    from pvmon.props.common import transient_init
    transient_init()


def gen_cases(tier, seed):
    out = []
    for i in range(CONFIG[tier]["cases"]):
        kind = "transient" if i % 40 == 13 else ("loop" if i % 5 == 4 else "net")
        out.append({"seed": seed, "i": i, "kind": kind, "fluid": FLUIDS[i % len(FLUIDS)],
                    "feats": list(FEATS[(i // 7) % len(FEATS)]), "tight": bool(i % 3 != 2), "numba": bool(i % 2)})
    _cases = out
    if tier == "thorough":
        _cases = list(_cases) + suite_cases()
    return _cases


def heating_loop(rng):
    """Flow line / return line pair closed by flow controllers, fed by a circulation pump."""
    n = int(rng.integers(2, 6))
    h = rng.uniform(0, 40, 2 * n)
    js = [{"name": "f%d" % i, "pn_bar": 5.0, "tfluid_k": float(rng.uniform(320, 360)), "height_m": float(h[i]), "in_service": True} for i in range(n)]
    js += [{"name": "r%d" % i, "pn_bar": 3.0, "tfluid_k": float(rng.uniform(300, 330)), "height_m": float(h[n + i]), "in_service": True} for i in range(n)]
    els = []
    pressure = rng.random() < 0.5
    if pressure:
        els.append({"kind": "circ_pump_pressure", "name": "cpp0", "return_junction": "r0", "flow_junction": "f0",
                    "p_flow_bar": float(rng.uniform(5, 9)), "plift_bar": float(rng.uniform(1, 4)),
                    "t_flow_k": float(rng.uniform(340, 370)), "in_service": True})
    for i in range(1, n):
        for side in "fr":
            a, b = ("%s%d" % (side, i - 1), "%s%d" % (side, i)) if side == "f" else ("%s%d" % (side, i), "%s%d" % (side, i - 1))
            els.append({"kind": "pipe", "name": "p%s%d" % (side, i), "from_junction": a, "to_junction": b,
                        "length_km": float(rng.uniform(0.05, 0.3)), "inner_diameter_mm": float(rng.uniform(60, 200)),
                        "k_mm": 0.1, "sections": int(rng.integers(1, 3)), "in_service": True})
    total = 0.0
    for i in range(n):
        m = float(rng.uniform(0.2, 1.5))
        total += m
        if pressure:
            els.append({"kind": "flow_control", "name": "fc%d" % i, "from_junction": "f%d" % i, "to_junction": "r%d" % i,
                        "controlled_mdot_kg_per_s": m, "control_active": True, "in_service": True})
        else:
            els.append({"kind": "valve", "name": "v%d" % i, "junction": "f%d" % i, "element": "r%d" % i, "et": "ju",
                        "inner_diameter_mm": float(rng.uniform(20, 60)), "opened": True, "loss_coefficient": float(rng.uniform(5, 50))})
    if not pressure:
        els.append({"kind": "circ_pump_mass", "name": "cpm0", "return_junction": "r0", "flow_junction": "f0",
                    "p_flow_bar": float(rng.uniform(5, 9)), "mdot_flow_kg_per_s": total,
                    "t_flow_k": float(rng.uniform(340, 370)), "in_service": True})
    return {"fluid": "water", "junctions": js, "elements": els}


def make(case):
    rng = rng_for("C03", case["seed"], case["i"])
    if case["kind"] == "loop":
        spec = heating_loop(rng)
    else:
        spec = netgen.gen_hydraulic(rng, fluid=case["fluid"], features=case["feats"],
                                    label_scheme=str(rng.choice(["contiguous", "shuffled", "gaps"])))
        if rng.random() < 0.5:   # warm fluid: density far from the normal-temperature density
            for j in spec["junctions"]:
                j["tfluid_k"] = float(rng.uniform(320, 353))
            for e in spec["elements"]:
                if e["kind"] == "ext_grid":
                    e["t_k"] = float(rng.uniform(320, 353))
        # remote pressure control: move the controlled junction one pipe further downstream
        for e in spec["elements"]:
            if e["kind"] == "press_control" and rng.random() < 0.6:
                nxt = [p["to_junction"] for p in spec["elements"] if p["kind"] == "pipe" and p["from_junction"] == e["to_junction"]]
                if nxt:
                    e["controlled_junction"] = nxt[0]
        # parallel stand-by machines: an out-of-service pump / compressor of another type or ratio (and duty / stand-by pressure
        # controllers on one controlled junction), created before or after the running one
        netgen.add_standby(spec, rng, controllers=True)
        netgen.relabel(spec, rng, str(rng.choice(["contiguous", "shuffled", "gaps"])))
        # an out-of-service extra grid on the first grid's junction
        if rng.random() < 0.3:
            spec["elements"].append({"kind": "ext_grid", "name": "ext_grid_oos", "junction": "j0", "p_bar": 99.0,
                                     "t_k": 300.0, "in_service": False})
        # contradictory prescriptions are not a valid network: no fixed pressure on a controlled junction
        ctrl = {e["controlled_junction"] for e in spec["elements"] if e["kind"] == "press_control"}
        spec["elements"] = [e for e in spec["elements"] if not (e["kind"] == "ext_grid" and e["junction"] in ctrl)]
        spec["elements"].sort(key=lambda e: e["kind"] == "press_control")
    opts = {"use_numba": case["numba"], "iter": 300,
            "friction_model": str(rng.choice(["nikuradse", "colebrook", "swamee-jain"]))}
    if case["tight"]:
        opts.update(tol_p=1e-10, tol_m=1e-10, tol_res=1e-9)
    return spec, opts


KINDS = ["fixed_pressure", "press_control", "prescribed_flow", "lift_", "compressor_", "pump_curve", "load_reports"]


def run_case(case, ctx):
    if case.get("kind") == "repo_suite":
        obs = Obs()
        n = run_suite_case(case, "C03", obs)
        rec = {"nontrivial": n > 0, "sample": {"repo_suite_part": case["part"], "pipeflow_calls_observed": n}, "evaluations": max(n, 1)}
        rec.update(obs.record())
        return rec
    if case["kind"] == "transient":
        # transient time series: the internal tables of the previous step are re-used - every step must still meet the set-points
        from pvmon.props.common import run_transient_series
        obs = Obs()
        steps = []

        def on_step(net):
            o = dict(net["_options"])
            mon_c03(net, obs, o)
            steps.append(1)
            obs.count("transient_steps_monitored")
        spec, o = run_transient_series(rng_for("C03t", case["seed"], case["i"]), obs, on_step)
        judged = {k: sum(v for c, v in obs.counters.items() if c.startswith(k)) for k in KINDS}
        rec = {"nontrivial": len(steps) >= 2 and sum(judged.values()) >= 3,
               "sample": {"case": case, "net": netgen.spec_summary(spec), "options": o, "transient_steps_monitored": len(steps), "identities_judged": judged},
               "evaluations": max(len(steps), 1)}
        rec.update(obs.record())
        return rec
    spec, opts = make(case)
    net = netgen.build(spec)
    obs = Obs()
    outcome, exc = run_pipeflow(net, opts)
    obs.count("outcome_" + outcome)
    rec = {}
    if outcome == "ok":
        if any(e["name"].endswith("_standby") for e in spec["elements"]):
            obs.count("nets_with_standby_machines")
        before = obs.counters.get("press_control_setpoints", 0)
        mon_c03(net, obs, opts)
        if obs.counters.get("press_control_setpoints", 0) > before and bool(net.res_junction.p_bar.isna().any()):
            obs.count("press_control_setpoints_in_reduced_net")     # part of the net is outside the calculation (internal indices shift)
        judged = {k: sum(v for c, v in obs.counters.items() if c.startswith(k)) for k in KINDS}
        rec["nontrivial"] = sum(judged.values()) >= 3 and sum(1 for v in judged.values() if v) >= 2
        if rec["nontrivial"]:
            rec["sample"] = {"case": case, "net": netgen.spec_summary(spec), "options": opts, "identities_judged": judged}
    rec.update(obs.record())
    return rec
