"""C09 - physically equivalent descriptions of a network give identical results."""
import copy

from pvmon import netgen, rewrites
from pvmon.compare import snapshot, diff_snapshots, nonunique_physics
from pvmon.monitors import Obs
from pvmon.props.common import rng_for, run_pipeflow

MANIFEST = {
    "text": "Held on every generated network and rewrite: reversing any subset of pipes / ju valves / heat exchangers, splitting multi-section pipes into series pipes, merging sections (liquid, uniform temperature), aggregating / splitting loads and turning sources into negative sinks, deleting disabled elements (among them stand-by pumps / compressors of another type listed before or after the running one), and shifting all fixed pressures of a liquid net give the results predicted by the rewrite within rtol 1e-7 on tight solves, for hydraulic and thermal results.",
    "note": "Both sides are tight Newton solves; non-converged sides and solutions with a flow-less pump/compressor (no unique lift) are not comparable (counted). Split pipes get interpolated height, start pressure and start temperature at the new junctions.",
    "technique": "runtime monitoring: metamorphic oracle over six equivalence rewrites comparing result tables of real runs",
}
RULE = ("seeded random gas/water networks (hydraulics mode) and heating loops (sequential / bidirectional mode); every case "
        "applies each applicable rewrite of {reverse, split, merge, aggregate, drop_disabled, shift} and compares the "
        "rewritten run with the base run through the rewrite's mapping; non-trivial = base converged and >= 2 rewrites "
        "compared with >= 20 values; distinct = case parameter hash")
ASSUMPTIONS = ["a non-converged side is not comparable (counted), never a violation"]
CONFIG = {"quick": {"shards": 8, "timeout_s": 600, "cases": 200},
          "thorough": {"shards": 16, "timeout_s": 3000, "cases": 4000}}
REQUIRED_COUNTERS = ["compared_reverse", "compared_split", "compared_merge", "compared_aggregate", "compared_drop_disabled",
                     "compared_shift", "compared_drop_standby_machine", "compared_reverse_thermal", "compared_split_thermal", "compared_gas"]
FEATS = [("valves", "oos", "heat_exchanger"), ("valves", "pi_valves", "oos", "closed", "mass_storage"),
         ("multi_grid", "mass_storage", "oos"), ("pump", "multi_pump", "valves", "oos", "multi_grid"), ("compressor", "multi_pump", "flow_control", "oos")]


def gen_cases(tier, seed):
    return [{"seed": seed, "i": i, "kind": "heat" if i % 4 == 3 else "hyd",
             "fluid": ["water", "lgas", "water", "hydrogen"][i % 4], "feats": list(FEATS[(i // 4) % len(FEATS)]),
             "numba": bool((i // 3) % 2)} for i in range(CONFIG[tier]["cases"])]


def make(case):
    rng = rng_for("C09", case["seed"], case["i"])
    if case["kind"] == "heat":
        base = netgen.gen_heating(rng, max_sections=3)
        opts = dict(netgen.TIGHT, mode=str(rng.choice(["sequential", "sequential", "bidirectional"])), use_numba=case["numba"])
    else:
        base = netgen.gen_hydraulic(rng, fluid=case["fluid"], features=case["feats"], max_sections=4)
        if {"pump", "compressor"} & set(case["feats"]):
            netgen.add_standby(base, rng)             # disabled machines of another type before / after running ones
        if rng.random() < 0.5:
            base = netgen.permute_rows(base, rng)     # loads of one junction in non-adjacent rows, unsorted tables
        opts = dict(netgen.TIGHT, use_numba=case["numba"], friction_model=str(rng.choice(["nikuradse", "swamee-jain", "colebrook"])),
                    tolerance_colebrook=1e-12, max_iter_colebrook=200)
    return base, opts, rng


def solve(spec, opts):
    net = netgen.build(spec)
    out, _ = run_pipeflow(net, opts)
    if out != "ok":
        return None
    s = snapshot(net)
    return None if nonunique_physics(s) else s


def compare_split(s0, s1, ends, obs, thermal=False):
    """End quantities of an original pipe vs first/last series pipe, section means vs means."""
    diffs = []
    P0, P1 = s0.get("pipe", {}), s1.get("pipe", {})
    from pvmon.compare import close, noise_level
    # flows that create no resolvable friction are undetermined (see pvmon.compare): their size is the absolute slack of all flows
    zf = max(1e-9, 2 * max(noise_level(s0), noise_level(s1)))
    for name, subs in ends.items():
        a = P0[name]
        first, last = P1[subs[0]], P1[subs[-1]]
        pairs = [("mdot_from_kg_per_s", first), ("p_from_bar", first), ("t_from_k", first), ("p_to_bar", last),
                 ("mdot_to_kg_per_s", last), ("t_to_k", last),
                 ("t_outlet_k", first if (thermal and a["mdot_from_kg_per_s"] < 0) else last)]
        if "v_from_m_per_s" in a:
            pairs += [("v_from_m_per_s", first), ("normfactor_from", first), ("v_to_m_per_s", last), ("normfactor_to", last)]
        noflow = abs(a["mdot_from_kg_per_s"]) <= zf
        for col, row in pairs:
            at, rt = 1e-9, 1e-7
            if col.startswith("mdot_"):
                at = zf
            elif col.startswith("v_"):
                if noflow:
                    continue
                rt = 1e-7 + 4 * zf / max(abs(a["mdot_from_kg_per_s"]), 1e-300)
            if not close(a[col], row[col], rt, at):
                diffs.append(("pipe", name, col, "A=%r series=%r" % (a[col], row[col])))
        for col in ("lambda", "reynolds", "v_mean_m_per_s"):
            if noflow:
                continue
            mean = sum(P1[s][col] for s in subs) / len(subs)
            rt = 1e-7 + 4 * zf / max(abs(a["mdot_from_kg_per_s"]), 1e-300)
            if not close(a[col], mean, rt, 1e-9):
                diffs.append(("pipe", name, col, "A=%r mean of series=%r" % (a[col], mean)))
        obs.count("split_pipes_compared")
    return diffs


def run_case(case, ctx):
    base, opts, rng = make(case)
    obs = Obs()
    s0 = solve(base, opts)
    rec = {"nontrivial": False}
    if s0 is None:
        obs.count("base_not_comparable")
        rec.update(obs.record())
        return rec
    thermal = case["kind"] == "heat"
    gas = base["fluid"] != "water"
    suffix = "_thermal" if thermal else ""
    done, values = 0, 0

    def judge(name, diffs, n, detail=None):
        nonlocal done, values
        obs.count("compared_" + name + suffix)
        if gas:
            obs.count("compared_gas")
        done += 1
        values += n
        if diffs:
            d = diffs[0]
            tag = "rewrite_" + name + suffix
            obs.violate(tag, "%s: %d values differ, first res_%s[%s].%s %s" % (name, len(diffs), d[0], d[1], d[2], d[3]),
                        rewrite=name, differing=[list(x[:4]) for x in diffs[:8]], detail=detail)

    # 1 reverse
    spec1, rev = rewrites.reverse_branches(base, rng)
    if rev:
        s1 = solve(spec1, opts)
        if s1 is None:
            obs.count("not_comparable_reverse")
        else:
            # without a thermal calculation t_outlet_k is just the start temperature of the (swapped) to-junction
            diffs, n, md = diff_snapshots(s0, s1, reversed_names=rev, col_atol={"qext_w": 1e-4},
                                          skip_cols=() if thermal else ("t_outlet_k",))
            obs.maxi("max_rel_dev_reverse", md)
            judge("reverse", diffs, n, detail={"reversed": sorted(rev)})
    # 2 split
    spec2, ends = rewrites.split_pipes(base)
    if ends:
        s2 = solve(spec2, opts)
        if s2 is None:
            obs.count("not_comparable_split")
        else:
            diffs, n, md = diff_snapshots(s0, s2, skip_names=set(ends), col_atol={"qext_w": 1e-4})
            diffs = list(diffs) + compare_split(s0, s2, ends, obs, thermal)
            obs.maxi("max_rel_dev_split", md)
            judge("split", diffs, n)
    if not thermal:
        # 3 merge sections: liquid at uniform temperature
        if not gas:
            ub = rewrites.uniform_temperature(base)
            sm, changed = rewrites.merge_sections(ub)
            if changed:
                su = solve(ub, opts)
                s3 = solve(sm, opts)
                if su is None or s3 is None:
                    obs.count("not_comparable_merge")
                else:
                    diffs, n, md = diff_snapshots(su, s3)
                    obs.maxi("max_rel_dev_merge", md)
                    judge("merge", diffs, n, detail={"merged": sorted(changed)})
        # 4 aggregate loads
        s4 = solve(rewrites.aggregate_loads(base, rng), opts)
        if s4 is None:
            obs.count("not_comparable_aggregate")
        else:
            diffs, n, md = diff_snapshots({t: r for t, r in s0.items() if t not in ("sink", "source", "mass_storage")}, s4)
            obs.maxi("max_rel_dev_aggregate", md)
            judge("aggregate", diffs, n)
        # 5 drop disabled
        spec5, gone = rewrites.drop_disabled(base)
        if gone:
            s5 = solve(spec5, opts)
            if s5 is None:
                obs.count("not_comparable_drop_disabled")
            else:
                diffs, n, md = diff_snapshots(s0, s5, skip_names=gone)
                judge("drop_disabled", diffs, n, detail={"dropped": sorted(gone)})
                if any(g.endswith("_standby") for g in gone):
                    obs.count("compared_drop_standby_machine")
        # 6 shift
        if not gas:
            c = float(rng.uniform(0.5, 5.0))
            s6 = solve(rewrites.shift_pressures(base, c), opts)
            if s6 is None:
                obs.count("not_comparable_shift")
            else:
                for t, rows in s6.items():
                    for row in rows.values():
                        for col in ("p_bar", "p_from_bar", "p_to_bar"):
                            if col in row:
                                row[col] -= c
                diffs, n, md = diff_snapshots(s0, s6)
                obs.maxi("max_rel_dev_shift", md)
                judge("shift", diffs, n, detail={"c": c})
    rec["nontrivial"] = done >= 2 and values >= 20
    if rec["nontrivial"]:
        rec["sample"] = {"case": case, "net": netgen.spec_summary(base), "rewrites_compared": done, "values_compared": values}
    rec.update(obs.record())
    return rec
