"""C13 - each time-series step equals a stand-alone calculation with that step's inputs."""
import copy
import math

import numpy as np

from pvmon import netgen
from pvmon.monitors import Obs
from pvmon.props.common import rng_for, run_pipeflow

MANIFEST = {
    "text": "Held on every generated series: for each executed time step whose stand-alone pipeflow (fresh build carrying that step's profile values) converges, the values the OutputWriter logged are bit-identical to the stand-alone results and the step is not flagged as failed; a step whose stand-alone run raises PipeflowNotConverged is flagged, later steps are unaffected with continue_on_divergence and the series raises at that step without it; any subset and order of time steps gives the same per-step values.",
    "note": "The values the writer stores for a failed step are not judged (writer convention). Hook H1 must show at least one pipeflow per executed step, otherwise the run is inconclusive.",
    "technique": "runtime monitoring: per-step differential oracle between the real run_timeseries loop (observed through its OutputWriter and hook H1) and stand-alone real pipeflows",
}
RULE = ("seeded gas / water / heating nets with ConstControl profiles on sinks, sources, heat consumers and on the in_service flag of an island's own feeder (the supplied part changes between steps) over 4-8 steps, some steps made "
        "infeasible, executed in full, as random subsets and in shuffled order, with and without continue_on_divergence, hydraulics and "
        "sequential mode; every eighth case is a multi-energy series (power net + 2-3 gas nets, one P2G coupling each, some gas nets with a profile of their own);  non-trivial = series with >= 2 steps compared against stand-alone runs; distinct = case hash")
ASSUMPTIONS = ["stand-alone reference = fresh build of the same spec + profile values of that step + the same options"]
CONFIG = {"quick": {"shards": 8, "timeout_s": 600, "cases": 96},
          "thorough": {"shards": 16, "timeout_s": 3000, "cases": 2400}}
REQUIRED_COUNTERS = ["steps_compared", "steps_failed_flag_checked", "series_with_infeasible_step", "series_continue_on_divergence",
                     "series_raise_on_divergence_checked", "series_subset_or_shuffled", "series_thermal", "series_with_feeder_switching", "series_with_blackout_step", "series_multi_energy", "steps_compared_multi_energy", "hook_pipeflow_events"]
_EVENTS = []


def worker_init(ctx):
    import pandapipes._verif as v
    if not v.ENABLED:
        raise RuntimeError("hooks not enabled")
    v.register(lambda ev, p: _EVENTS.append(ev) if ev in ("enter", "exit") else None)


def gen_cases(tier, seed):
    return [{"seed": seed, "i": i, "kind": "multi" if i % 8 == 7 else ("heat" if i % 3 == 2 else "hyd")} for i in range(CONFIG[tier]["cases"])]


def run_multi(case):
    """Multi-energy time series: one power net feeding 2-3 gas nets through one P2G coupling each (the controllers of one level
    name different nets), some gas nets with a profile of their own; every logged step of every gas net against a stand-alone
    pipeflow carrying that step's values."""
    import pandas as pd
    import pandapipes as pp
    import pandapower as ppow
    import pandapower.networks as pn
    from pandapower.control import ConstControl
    from pandapower.timeseries import DFData, OutputWriter
    from pandapipes.multinet.create_multinet import create_empty_multinet, add_net_to_multinet
    from pandapipes.multinet.control.controller.multinet_control import coupled_p2g_const_control
    from pandapipes.multinet.timeseries.run_time_series_multinet import run_timeseries as run_multi_series
    rng = rng_for("C13m", case["seed"], case["i"])
    obs = Obs()
    k = int(rng.integers(2, 4))
    nsteps = int(rng.integers(3, 7))
    pw = pn.example_simple()
    mn = create_empty_multinet("c13")
    add_net_to_multinet(mn, pw, "power")
    prof = pd.DataFrame({"p%d" % g: rng.uniform(0.02, 0.5, nsteps) for g in range(k)})
    members = []
    for g in range(k):
        spec = netgen.gen_hydraulic(rng, fluid=str(rng.choice(["lgas", "hgas", "methane", "hydrogen"])), features=[(), ("valves",)][int(rng.integers(2))],
                                    n=int(rng.integers(4, 8)), max_sections=2)
        net = netgen.build(spec)
        name = "gas%d" % g
        add_net_to_multinet(mn, net, name)
        load = int(ppow.create_load(pw, int(pw.bus.index[2 + g]), p_mw=0.1, scaling=float(rng.choice([1.0, 0.5]))))
        jsrc = int(net.junction.index[int(rng.integers(1, len(net.junction)))])
        src = int(pp.create_source(net, jsrc, 0.0, name="ts_src"))
        eff = float(rng.uniform(0.4, 0.9))
        _, ctrl = coupled_p2g_const_control(mn, load, src, eff, name_power_net="power", name_gas_net=name, profile_name="p%d" % g, data_source=DFData(prof))
        own = None
        if len(net.sink) and rng.random() < 0.5:     # a controller of its own in the gas net
            sk = int(net.sink.index[0])
            own = (sk, [float(net.sink.at[sk, "mdot_kg_per_s"] * rng.uniform(0.3, 1.5)) for _ in range(nsteps)])
            ConstControl(net, element="sink", variable="mdot_kg_per_s", element_index=[sk], profile_name=["own"], data_source=DFData(pd.DataFrame({"own": own[1]})))
        members.append(dict(name=name, spec=spec, net=net, load=load, src=src, jsrc=jsrc, eff=eff, ctrl=ctrl, own=own))
    r = rng.random()
    steps = list(range(nsteps))
    if r < 0.3:
        steps = sorted(int(x) for x in rng.choice(nsteps, size=max(2, nsteps // 2), replace=False))
    elif r < 0.5:
        steps = [int(x) for x in rng.permutation(nsteps)]
    logs = [("res_source", "mdot_kg_per_s"), ("res_junction", "p_bar"), ("res_pipe", "mdot_from_kg_per_s"), ("res_ext_grid", "mdot_kg_per_s")]
    for m in members:
        m["ow"] = OutputWriter(m["net"], steps, output_path=None, log_variables=logs)
    OutputWriter(pw, steps, output_path=None, log_variables=[("res_load", "p_mw")])
    del _EVENTS[:]
    try:
        run_multi_series(mn, steps, iter=100, verbose=False)
    except Exception as e:
        import traceback
        fr = traceback.extract_tb(e.__traceback__)
        where = [f for f in fr if "pandapipes" in f.filename][-1:] or fr[-1:]
        obs.violate("multi_energy_series_raises", "multi-energy series with %d gas nets (own profiles in %s) raised %s: %s (at %s:%d)"
                    % (k, [m["name"] for m in members if m["own"]], type(e).__name__, str(e)[:80], where[0].filename.split("/")[-1], where[0].lineno), steps=steps)
        rec = {"nontrivial": True, "sample": {"case": case, "gas_nets": k, "steps": steps}}
        rec.update(obs.record())
        return rec
    obs.count("hook_pipeflow_events", sum(1 for e in _EVENTS if e == "enter"))
    obs.count("series_multi_energy")
    if steps != list(range(nsteps)):
        obs.count("series_subset_or_shuffled")
    compared = 0
    for m in members:
        for s in steps:
            want_m = float(prof["p" + m["name"][3:]][s])
            want_m = want_m * float(pw.load.at[m["load"], "scaling"]) * float(np.ravel(m["ctrl"].conversion_factor_mw_to_kgps())[0]) * m["eff"]
            ref = netgen.build(m["spec"])
            pp.create_source(ref, m["jsrc"], want_m, name="ts_src")
            if m["own"] is not None:
                ref.sink.at[m["own"][0], "mdot_kg_per_s"] = m["own"][1][s]
            out, _ = run_pipeflow(ref, {"iter": 100})
            if out != "ok":
                obs.count("multi_step_standalone_not_ok")
                continue
            compared += 1
            obs.count("steps_compared")
            obs.count("steps_compared_multi_energy")
            for a, b in logs:
                key = "%s.%s" % (a, b)
                logged = m["ow"].output[key].loc[s]
                got = np.array([logged[c] for c in ref[a].index], dtype=float)
                exp = ref[a][b].values.astype(float)
                tol = 1e-12 * np.maximum(1.0, np.abs(exp))      # the written source value is a product formed in another order
                same = (np.isnan(got) & np.isnan(exp)) | (np.abs(got - exp) <= tol)
                if not same.all():
                    j = int(np.argmin(same))
                    obs.violate("step_differs_from_standalone", "multi-energy series, net %s step %d: logged %s[%s]=%r, stand-alone %r (steps %s)"
                                % (m["name"], s, key, ref[a].index[j], got[j], exp[j], steps), step=s, variable=key, net=m["name"], steps=steps)
                    break
    rec = {"nontrivial": compared >= 2, "sample": {"case": case, "gas_nets": k, "steps": steps, "own_profiles": sum(1 for m in members if m["own"])}}
    rec.update(obs.record())
    return rec


def make(case):
    rng = rng_for("C13", case["seed"], case["i"])
    if case["kind"] == "heat":
        spec = netgen.gen_heating(rng, modes=["MF_DT", "MF_TR", "QE_MF"], source=str(rng.choice(["cpp", "grid"])), max_sections=2)
    else:
        feats = [("valves",), ("multi_grid", "mass_storage"), ("pump",), (), ("islands",), ("islands", "valves")][int(rng.integers(6))]
        spec = netgen.gen_hydraulic(rng, fluid=str(rng.choice(["lgas", "water", "hydrogen"])), features=feats, max_sections=2)
        if "islands" in feats:
            # the island gets its own feeder, which a profile switches on and off: the supplied part changes from step to step
            main = sum(1 for j in spec["junctions"] if not j["name"].startswith("j") or True)
            isl = spec["junctions"][-1]["name"]
            eg0 = [e for e in spec["elements"] if e["kind"] == "ext_grid"][0]
            spec["elements"].append({"kind": "ext_grid", "name": "eg_island", "junction": isl, "p_bar": eg0["p_bar"] * 0.9, "t_k": 300.0, "in_service": True})
    nsteps = int(rng.integers(4, 9))
    profiles = {}
    for e in spec["elements"]:
        if e["kind"] in ("sink", "source") and rng.random() < 0.7:
            profiles[(netgen.table_of(e["kind"]), e["name"], "mdot_kg_per_s")] = [float(e["mdot_kg_per_s"] * rng.uniform(0.2, 1.6)) for _ in range(nsteps)]
        elif e["kind"] == "heat_consumer" and rng.random() < 0.7 and e.get("controlled_mdot_kg_per_s") is not None:
            profiles[("heat_consumer", e["name"], "controlled_mdot_kg_per_s")] = [float(e["controlled_mdot_kg_per_s"] * rng.uniform(0.4, 1.4)) for _ in range(nsteps)]
    if any(e["name"] == "eg_island" for e in spec["elements"]):
        flags = [bool(x) for x in rng.random(nsteps) < 0.5]
        if all(flags) or not any(flags):
            flags[int(rng.integers(nsteps))] = not flags[0]
        profiles[("ext_grid", "eg_island", "in_service")] = flags
    infeasible = []
    sinks = [k for k in profiles if k[0] == "sink"]
    if sinks and rng.random() < 0.6:
        for s in rng.choice(nsteps, int(rng.integers(1, 3)), replace=False):
            profiles[sinks[0]][int(s)] *= 1e5
            infeasible.append(int(s))
    if rng.random() < 0.25:
        # black-out steps: every feeder out of service - nothing is supplied, the calculation fails before its first iteration
        feeders = [e for e in spec["elements"] if e["kind"] in ("ext_grid", "circ_pump_mass", "circ_pump_pressure")]
        dark = set(int(x) for x in rng.choice(np.arange(1, nsteps), int(rng.integers(1, 3)), replace=False))
        for e in feeders:
            key = (netgen.table_of(e["kind"]), e["name"], "in_service")
            base = profiles.get(key, [bool(e.get("in_service", True))] * nsteps)
            profiles[key] = [False if i in dark else bool(b) for i, b in enumerate(base)]
        infeasible += sorted(dark)
        spec["blackout_steps"] = sorted(dark)
    steps = list(range(nsteps))
    mode = rng.random()
    if mode < 0.35:
        steps = sorted(int(x) for x in rng.choice(nsteps, int(rng.integers(2, nsteps + 1)), replace=False))
    elif mode < 0.6:
        steps = [int(x) for x in rng.permutation(nsteps)]
    cod = bool(rng.random() < 0.65)
    opts = {"iter": 60, "mode": "sequential" if case["kind"] == "heat" else "hydraulics", "use_numba": bool(rng.random() < 0.5)}
    return spec, profiles, steps, nsteps, cod, opts, infeasible


LOG = [("res_junction", "p_bar"), ("res_pipe", "mdot_from_kg_per_s"), ("res_ext_grid", "mdot_kg_per_s"), ("res_junction", "t_k"),
       ("res_pipe", "t_outlet_k"), ("res_sink", "mdot_kg_per_s")]


def run_case(case, ctx):
    import pandas as pd
    import pandapipes as pp
    from pandapower.control import ConstControl
    from pandapower.timeseries import DFData, OutputWriter
    from pandapipes.timeseries import run_timeseries
    from pandapipes.pf.pipeflow_setup import PipeflowNotConverged
    if case["kind"] == "multi":
        return run_multi(case)
    spec, profiles, steps, nsteps, cod, opts, infeasible = make(case)
    obs = Obs()
    net = netgen.build(spec)
    if not profiles:
        rec = {"nontrivial": False}
        rec.update(obs.record())
        return rec
    # one ConstControl per (table, variable)
    groups = {}
    for (t, name, var), vals in profiles.items():
        groups.setdefault((t, var), []).append((name, vals))
    for (t, var), lst in groups.items():
        df = pd.DataFrame({n: v for n, v in lst})
        idx = [int(net[t].index[net[t]["name"] == n][0]) for n, _ in lst]
        ConstControl(net, element=t, variable=var, element_index=idx, profile_name=[n for n, _ in lst], data_source=DFData(df))
    logs = [(a, b) for a, b in LOG if a in net or a[4:] in net]
    logs = [(a, b) for a, b in logs if a[4:] in net and len(net[a[4:]])]
    ow = OutputWriter(net, time_steps=steps, output_path=None, log_variables=logs)
    del _EVENTS[:]
    raised = None
    try:
        run_timeseries(net, time_steps=steps, continue_on_divergence=cod, verbose=False, **opts)
    except PipeflowNotConverged as e:
        raised = e
    except Exception as e:
        obs.count("series_raised_" + type(e).__name__)
        raised = e
    obs.count("hook_pipeflow_events", sum(1 for e in _EVENTS if e == "enter"))
    if infeasible and set(infeasible) & set(steps):
        obs.count("series_with_infeasible_step")
    if cod:
        obs.count("series_continue_on_divergence")
    if steps != list(range(nsteps)):
        obs.count("series_subset_or_shuffled")
    if case["kind"] == "heat":
        obs.count("series_thermal")
    if ("ext_grid", "eg_island", "in_service") in profiles:
        obs.count("series_with_feeder_switching")
    if spec.get("blackout_steps") and set(spec["blackout_steps"]) & set(steps):
        obs.count("series_with_blackout_step")
    params = ow.output.get("Parameters")
    failed_flags = {}
    if params is not None and "powerflow_failed" in params:
        failed_flags = {int(ts): bool(f) for ts, f in zip(params["time_step"].values, params["powerflow_failed"].values) if not pd.isna(ts)}
    desc = {"steps": steps, "continue_on_divergence": cod, "options": opts}
    compared = 0
    refs = []
    for pos, s in enumerate(steps):
        ref = netgen.build(spec)
        for (t, name, var), vals in profiles.items():
            ref[t].loc[ref[t]["name"] == name, var] = vals[s]
        out, exc = run_pipeflow(ref, opts)
        refs.append((pos, s, ref, out))
    fails = [pos for pos, s, ref, out in refs if out == "not_converged"]
    other = [pos for pos, s, ref, out in refs if out not in ("ok", "not_converged")]
    last_pos = len(steps) - 1
    if other:
        last_pos = min(other) - 1            # behaviour for other exception classes is not part of the statement
        obs.count("standalone_other_exception")
    if not cod and fails:
        last_pos = min(last_pos, fails[0])
    if raised is not None and not isinstance(raised, PipeflowNotConverged) and not other:
        obs.violate("series_raised_other_exception", "the series raised %s: %s" % (type(raised).__name__, str(raised)[:100]), **desc)
    if isinstance(raised, PipeflowNotConverged) and (cod or not fails) and not other:
        obs.violate("series_raised_without_diverged_step", "the series raised PipeflowNotConverged although %s"
                    % ("continue_on_divergence is set" if cod else "every step converges stand-alone"), **desc)
    for pos, s, ref, out in refs:
        if pos > last_pos:
            break
        if out == "ok":
            if failed_flags.get(s, False):
                obs.violate("converging_step_flagged_failed", "step %d converges stand-alone but is flagged failed in the series" % s, step=s, **desc)
                continue
            compared += 1
            obs.count("steps_compared")
            for a, b in logs:
                key = "%s.%s" % (a, b)
                want = ref[a][b]
                if key in ow.output and s in ow.output[key].index:
                    logged = ow.output[key].loc[s]
                    got = np.array([logged[c] for c in want.index], dtype=float)
                elif raised is not None and key in getattr(ow, "np_results", {}):
                    # a series that raised never finalises its writer: read the raw per-step buffer (row = position in the series)
                    got = np.asarray(ow.np_results[key][pos], dtype=float)
                    obs.count("steps_read_from_raw_buffer")
                    if len(got) != len(want):
                        obs.count("raw_buffer_shape_unexpected")
                        continue
                else:
                    obs.violate("step_not_logged", "step %d has no logged %s" % (s, key), step=s, **desc)
                    continue
                exp = want.values.astype(float)
                same = (np.isnan(got) & np.isnan(exp)) | (got == exp)
                if not same.all():
                    k = int(np.argmin(same))
                    obs.maxi("max_abs_dev_logged", float(np.nanmax(np.abs(got - exp))))
                    obs.violate("step_differs_from_standalone", "step %d: logged %s[%s]=%r, stand-alone %r (position %d in the series, steps %s)"
                                % (s, key, want.index[k], got[k], exp[k], pos, steps), step=s, variable=key, **desc)
                    break
        elif out == "not_converged":
            obs.count("steps_failed_flag_checked")
            if cod:
                if not failed_flags.get(s, False):
                    obs.violate("diverged_step_not_flagged", "step %d diverges stand-alone but is not flagged failed (flags %s)" % (s, failed_flags), step=s, **desc)
            else:
                obs.count("series_raise_on_divergence_checked")
                if not isinstance(raised, PipeflowNotConverged):
                    obs.violate("series_did_not_raise_on_divergence", "step %d diverges stand-alone, continue_on_divergence=False, but the series %s"
                                % (s, "returned" if raised is None else "raised %s" % type(raised).__name__), step=s, **desc)
    rec = {"nontrivial": compared >= 2,
           "sample": {"case": case, "net": netgen.spec_summary(spec), "steps": steps, "infeasible_steps": infeasible, "continue_on_divergence": cod,
                      "profiles": len(profiles), "logged": ["%s.%s" % l for l in logs]}}
    rec.update(obs.record())
    return rec
