"""C07 - numba and numpy engines and the matrix-update option give the same answer."""
import copy
import math

import numpy as np

from pvmon import netgen
from pvmon.compare import snapshot, diff_snapshots, nonunique_physics
from pvmon.monitors import Obs
from pvmon.props.common import rng_for, run_pipeflow, run_thermal

MANIFEST = {
    "text": "Held on everything observed: (a) the numba and numpy twin kernels called directly on generated arrays with forced edge rows (zero flow, flows around the 1e-10/1e-8 thresholds, equal and nearly equal end pressures, reverse flow, zero length, NaN mass flow, empty arrays) return the same residual-type outputs; (b) whole networks solved with use_numba on/off agree within rtol 1e-7; (c) call sequences using only_update_hydraulic_matrix / reuse_internal_data with loads changed between calls equal fresh runs.",
    "note": "Jacobian-type kernel outputs are compared and counted but a difference there is only a violation if it surfaces in (b); NUMBA_BOUNDSCHECK=1 is used in the thorough tier.",
    "technique": "runtime monitoring: differential oracle between twin kernels (direct calls) and between engine / option configurations of real runs",
}
RULE = ("(a) seeded random branch/node tables (1-40 rows) with forced edge rows fed to every twin kernel pair; (b) seeded random "
        "gas/water nets and heating loops solved with both engines (tight tolerances); (c) sequences of 2-4 calls with "
        "only_update_hydraulic_matrix(+reuse_internal_data) and edited loads (sinks, sources, flow controllers, heat consumers) vs fresh runs, in hydraulics, sequential and bidirectional mode, on nets with valves, pumps / compressors, pressure controllers and heating loops; non-trivial = a kernel batch with "
        ">= 1 edge row class, or a compared pair with >= 20 values; distinct = case hash")
ASSUMPTIONS = ["a non-converged side is not comparable (counted)"]
CONFIG = {"quick": {"shards": 8, "timeout_s": 600, "kernel_batches": 200, "nets": 160, "sequences": 80},
          "thorough": {"shards": 16, "timeout_s": 3000, "kernel_batches": 6000, "nets": 3000, "sequences": 1500,
                       "env": {"NUMBA_BOUNDSCHECK": "1"}}}
REQUIRED_COUNTERS = ["kernel_pairs_hydraulic_incomp", "kernel_pairs_hydraulic_comp", "kernel_pairs_lambda", "kernel_pairs_medium_pressure",
                     "kernel_pairs_derived_values", "kernel_pairs_thermal", "kernel_pairs_thermal_transient", "kernel_pairs_grouped_sum", "grouped_sum_wide_dynamic_range", "edge_rows_zero_flow",
                     "edge_rows_equal_pressures", "edge_rows_reverse_flow", "edge_rows_zero_length", "edge_rows_nan_flow",
                     "engine_pairs_compared", "engine_pairs_thermal", "engine_pairs_gas", "update_sequences_compared", "update_sequences_hydraulics",
                     "update_sequences_sequential", "update_sequences_bidirectional", "update_sequences_with_pressure_controller", "update_steps_with_changed_loads"]


def gen_cases(tier, seed):
    cfg = CONFIG[tier]
    out = [{"kind": "kernels", "seed": seed, "i": i} for i in range(cfg["kernel_batches"])]
    out += [{"kind": "engines", "seed": seed, "i": i} for i in range(cfg["nets"])]
    out += [{"kind": "update", "seed": seed, "i": i} for i in range(cfg["sequences"])]
    return out


# ------------------------------------------------------------------------------------------------
def same(a, b, rtol=1e-12, atol=0.0):
    a, b = np.asarray(a, dtype=float), np.asarray(b, dtype=float)
    if a.shape != b.shape:
        return False
    return bool(np.all((np.isnan(a) & np.isnan(b)) | (a == b) | (np.abs(a - b) <= atol + rtol * np.maximum(np.abs(a), np.abs(b)))))


def run_kernels(case, obs):
    from pandapipes.pf import derivative_toolbox as dn, derivative_toolbox_numba as dj, internals_toolbox as it
    from pandapipes import idx_branch as ib, idx_node as inn
    rng = rng_for("C07k", case["seed"], case["i"])
    nb = int(rng.integers(0, 40)) if rng.random() < 0.95 else 0
    nn = max(2, int(rng.integers(2, 30)))
    bp = np.zeros((nb, ib.branch_cols))
    npit = np.zeros((nn, inn.node_cols))
    npit[:, inn.PINIT] = rng.uniform(0.5, 10, nn)
    npit[:, inn.PAMB] = rng.uniform(0.9, 1.02, nn)
    npit[:, inn.HEIGHT] = rng.uniform(0, 100, nn)
    npit[:, inn.TINIT] = rng.uniform(280, 360, nn)
    fn = rng.integers(0, nn, nb).astype(np.int32)
    tn = rng.integers(0, nn, nb).astype(np.int32)
    bp[:, ib.FROM_NODE], bp[:, ib.TO_NODE] = fn, tn
    bp[:, ib.MDOTINIT] = rng.uniform(-5, 5, nb) * 10 ** rng.uniform(-6, 0, nb)
    bp[:, ib.LENGTH] = rng.uniform(1, 500, nb)
    bp[:, ib.D] = rng.uniform(0.02, 1.0, nb)
    bp[:, ib.DO] = bp[:, ib.D] + rng.uniform(0, 0.05, nb)
    bp[:, ib.AREA] = bp[:, ib.D] ** 2 * np.pi / 4
    bp[:, ib.K] = rng.uniform(1e-6, 1e-3, nb)
    bp[:, ib.LAMBDA] = rng.uniform(0.01, 0.08, nb)
    bp[:, ib.LOSS_COEFFICIENT] = rng.uniform(0, 5, nb) * (rng.random(nb) < 0.5)
    bp[:, ib.PL] = rng.uniform(0, 2, nb) * (rng.random(nb) < 0.2)
    bp[:, ib.TOUTINIT] = rng.uniform(280, 360, nb)
    bp[:, ib.TEXT] = rng.uniform(260, 300, nb)
    bp[:, ib.ALPHA] = rng.uniform(0, 20, nb)
    bp[:, ib.TL] = rng.uniform(0, 3, nb) * (rng.random(nb) < 0.2)
    bp[:, ib.QEXT] = rng.uniform(-1e4, 1e4, nb) * (rng.random(nb) < 0.2)
    p_i = npit[fn, inn.PINIT] + npit[fn, inn.PAMB]
    p_i1 = npit[tn, inn.PINIT] + npit[tn, inn.PAMB]
    # ---- forced edge rows
    for r in range(nb):
        u = rng.random()
        if u < 0.08:
            bp[r, ib.MDOTINIT] = 0.0
            obs.count("edge_rows_zero_flow")
        elif u < 0.14:
            bp[r, ib.MDOTINIT] = float(rng.choice([1e-10, -1e-10, 0.99e-8, 1.01e-8, -1e-8, 2e-11, -2e-11, 3e-11, 1e-12]))
            obs.count("edge_rows_threshold_flow")
        elif u < 0.2:
            p_i1[r] = p_i[r]
            obs.count("edge_rows_equal_pressures")
        elif u < 0.26:
            p_i1[r] = p_i[r] * (1 + float(rng.choice([1e-5, -1e-5, 0.9e-5, 1.1e-5, 1e-9, 1e-13])))
            obs.count("edge_rows_nearly_equal_pressures")
        elif u < 0.32:
            bp[r, ib.LENGTH] = 0.0
            obs.count("edge_rows_zero_length")
        elif u < 0.36:
            bp[r, ib.MDOTINIT] = np.nan
            obs.count("edge_rows_nan_flow")
        if bp[r, ib.MDOTINIT] < 0:
            obs.count("edge_rows_reverse_flow")
    if nb == 0:
        obs.count("edge_empty_arrays")
    der_lambda = rng.uniform(-1e-3, 1e-3, nb)
    hd = npit[fn, inn.HEIGHT] - npit[tn, inn.HEIGHT]
    rho = rng.uniform(0.5, 1000, nb)
    desc = {"batch": case["i"], "rows": nb}

    def judge(name, outs_np, outs_nb, residual_idx, labels, tol=None):
        obs.count("kernel_pairs_" + name)
        for i, (a, b) in enumerate(zip(outs_np, outs_nb)):
            if same(a, b):
                continue
            if tol and labels[i] in tol and tol[labels[i]](np.asarray(a, float), np.asarray(b, float)):
                obs.count("kernel_difference_within_conditioning_%s_%s" % (name, labels[i]))
                continue
            a_, b_ = np.asarray(a, float), np.asarray(b, float)
            bad = np.where(~((np.isnan(a_) & np.isnan(b_)) | np.isclose(a_, b_, rtol=1e-12, atol=0)))[0] if a_.shape == b_.shape else []
            if i in residual_idx:
                obs.violate("twin_kernels_differ_" + name, "%s output %s differs between numpy and numba at rows %s"
                            % (name, labels[i], list(bad[:5])), output=labels[i],
                            numpy=[float(x) for x in a_.ravel()[bad[:5]]] if len(bad) else None,
                            numba=[float(x) for x in b_.ravel()[bad[:5]]] if len(bad) else None, **desc)
            else:
                obs.count("jacobian_type_difference_%s_%s" % (name, labels[i]))

    lab_h = ["load_vec", "load_vec_nodes_from", "load_vec_nodes_to", "df_dm", "df_dm_nodes", "df_dp", "df_dp1", "dp_frict_loss"]
    if nb:
        judge("hydraulic_incomp", dn.derivatives_hydraulic_incomp_np(bp.copy(), der_lambda, p_i, p_i1, hd, rho),
              dj.derivatives_hydraulic_incomp_numba(bp.copy(), der_lambda, p_i, p_i1, hd, rho), {0, 1, 2, 7}, lab_h)
        comp_fact = rng.uniform(0.9, 1.05, nb)
        dc, dc1 = rng.uniform(-1e-3, 1e-3, nb), rng.uniform(-1e-3, 1e-3, nb)
        rho_n = np.full(nb, float(rng.uniform(0.08, 1.3)))
        judge("hydraulic_comp", dn.derivatives_hydraulic_comp_np(npit.copy(), bp.copy(), bp[:, ib.LAMBDA].copy(), der_lambda, p_i, p_i1, hd, comp_fact, dc, dc1, rho, rho_n),
              dj.derivatives_hydraulic_comp_numba(npit.copy(), bp.copy(), bp[:, ib.LAMBDA].copy(), der_lambda, p_i, p_i1, hd, comp_fact, dc, dc1, rho, rho_n),
              {0, 1, 2, 7}, lab_h)
        eta = rng.uniform(1e-6, 1e-3, nb)
        m = bp[:, ib.MDOTINIT].copy()
        for nm, f1, f2 in (("incomp", dn.calc_lambda_nikuradse_incomp_np, dj.calc_lambda_nikuradse_incomp_numba),
                           ("comp", dn.calc_lambda_nikuradse_comp_np, dj.calc_lambda_nikuradse_comp_numba)):
            judge("lambda", f1(m.copy(), bp[:, ib.D].copy(), bp[:, ib.K].copy(), eta, bp[:, ib.AREA].copy()),
                  f2(m.copy(), bp[:, ib.D].copy(), bp[:, ib.K].copy(), eta, bp[:, ib.AREA].copy()), {0, 1, 2}, ["re", "lambda_laminar", "lambda_nikuradse"],
                  # a NaN mass flow gives a NaN Reynolds number in both engines; the laminar part (NaN vs 0) is then irrelevant
                  tol={"lambda_laminar": lambda a, b: bool(np.all((a == b) | (np.isnan(a) & np.isnan(b)) | np.isnan(m)))})
        judge("medium_pressure", dn.calc_medium_pressure_with_derivative_np(p_i.copy(), p_i1.copy()),
              dj.calc_medium_pressure_with_derivative_numba(p_i.copy(), p_i1.copy()), {0}, ["p_m", "der_p_m", "der_p_m1"],
              # forward error bound of (p^3 - p1^3) / (p^2 - p1^2): eps * p / |p - p1| (cancellation for nearly equal pressures)
              tol={"p_m": lambda a, b: bool(np.all(np.abs(a - b) <= np.abs(a) * (1e-12 + 16 * 2.3e-16 * p_i / np.maximum(np.abs(p_i - p_i1), 1e-300))))})
        judge("derived_values", dn.calc_derived_values_np(npit, fn, tn), dj.calc_derived_values_numba(npit, fn, tn),
              {0, 1, 2, 3}, ["tinit_branch", "height_difference", "p_init_i_abs", "p_init_i1_abs"])
        # thermal (steady state); flow direction already corrected: use |m|-based nodes
        bt = bp.copy()
        bt[np.isnan(bt[:, ib.MDOTINIT]), ib.MDOTINIT] = 0.5
        t_i, t_i1 = npit[fn, inn.TINIT], bt[:, ib.TOUTINIT]
        t_nt, t_n = npit[tn, inn.TINIT], npit[:, inn.TINIT]
        cp_n, cp_b = rng.uniform(4000, 4300, nb), rng.uniform(4000, 4300, nb)
        args = (npit.copy(), bt, npit.copy(), np.arange(inn.node_cols, dtype=np.int32), bt.copy(), np.arange(ib.branch_cols, dtype=np.int32),
                fn, tn, t_i, t_i1, t_nt, t_n, cp_n, cp_b, rho, None, False, 293.15)
        try:
            o1 = list(dn.derivatives_thermal_np(*args))
            o2 = list(dj.derivatives_thermal_numba(*args))
            mask = np.zeros(nn, dtype=bool)
            mask[np.asarray(o1[8], dtype=int)] = True      # numpy returns the infeed nodes as index set, numba as mask
            o1[8] = mask.astype(float)
            o2[8] = np.asarray(o2[8]).astype(float)
            # branches below the zero-flow threshold (1e-10 kg/s) are cut to zero by one engine only: <= cp * 1e-10 * dT
            judge("thermal", o1, o2, {0, 2, 5, 8}, ["fn", "dfn_dt", "fnt", "dfnt_dt", "dfnt_dtout", "fb", "dfb_dt", "dfb_dtout", "infeed"],
                  tol={"fnt": lambda a, b: bool(np.all(np.abs(a - b) <= 1e-4))})
            # transient form of the same kernels (previous time step values from separate 'old' tables)
            npit_old = npit.copy()
            npit_old[:, inn.TINIT] = rng.uniform(280, 360, nn)
            bt_old = bt.copy()
            bt_old[:, ib.TOUTINIT] = rng.uniform(280, 360, nb)
            # some stagnant branches so that nodes without flow exist
            bt2 = bt.copy()
            stag = rng.random(nb) < 0.4
            bt2[stag, ib.MDOTINIT] = 0.0
            targs = (npit.copy(), bt2, npit_old, np.arange(inn.node_cols, dtype=np.int32), bt_old, np.arange(ib.branch_cols, dtype=np.int32),
                     fn, tn, t_i, t_i1, t_nt, t_n, cp_n, cp_b, rho, float(rng.choice([60.0, 900.0])), True, 293.15)
            o1 = list(dn.derivatives_thermal_np(*targs))
            o2 = list(dj.derivatives_thermal_numba(*targs))
            mask = np.zeros(nn, dtype=bool)
            mask[np.asarray(o1[8], dtype=int)] = True
            o1[8] = mask.astype(float)
            o2[8] = np.asarray(o2[8]).astype(float)
            judge("thermal_transient", o1, o2, {0, 2, 5, 8}, ["fn", "dfn_dt", "fnt", "dfnt_dt", "dfnt_dtout", "fb", "dfb_dt", "dfb_dtout", "infeed"],
                  tol={"fnt": lambda a, b: bool(np.all(np.abs(a - b) <= 1e-4)),
                       "fn": lambda a, b: bool(np.all(np.abs(a - b) <= 1e-9 * (1 + np.maximum(np.abs(a), np.abs(b))))),
                       "fb": lambda a, b: bool(np.all(np.abs(a - b) <= 1e-9 * (1 + np.maximum(np.abs(a), np.abs(b)))))})
        except Exception as e:
            obs.count("thermal_kernel_call_failed_" + type(e).__name__)
    # grouped sums (index arrays up to and beyond 1e5, empty arrays)
    k = int(rng.integers(0, 60))
    top = int(rng.choice([5, 50, 99999, 100000, 100001, 250000]))
    # index arrays come from table columns of different integer types (junction columns are uint32)
    idx = rng.integers(0, top + 1, k).astype([np.int64, np.int32, np.uint32][int(rng.integers(3))])
    obs.count("grouped_sum_index_dtype_" + str(idx.dtype))
    if k and rng.random() < 0.5:
        idx[0] = top
    v1, v2 = rng.uniform(-5, 5, k), rng.uniform(0, 1, k)
    if k > 3 and rng.random() < 0.5:
        # one entry many orders above the others (the friction factor of a creeping-flow pipe is ~1e7): every group's sum must
        # keep its own accuracy
        v1[int(rng.integers(k))] *= float(10.0 ** rng.integers(7, 11))
        obs.count("grouped_sum_wide_dynamic_range")
    try:
        a = it._sum_by_group_np(idx.copy(), v1.copy(), v2.copy())
        b = it._sum_by_group_numba(idx.copy(), v1.copy(), v2.copy())
        obs.count("kernel_pairs_grouped_sum")
        if top >= 100000:
            obs.count("grouped_sum_large_index")
        # reference: plain dictionary accumulation (neither engine)
        ref = {}
        for j, u, w in zip(idx.tolist(), v1.tolist(), v2.tolist()):
            r_ = ref.setdefault(j, [0.0, 0.0])
            r_[0] += u
            r_[1] += w
        keys = sorted(ref)
        want = [np.array(keys, float), np.array([ref[j][0] for j in keys]), np.array([ref[j][1] for j in keys])]
        for eng, outs in (("numpy", a), ("numba", b)):
            for i, (x, y) in enumerate(zip(outs, want)):
                if not same(np.asarray(x, float), y, rtol=1e-12, atol=1e-12):
                    obs.violate("grouped_sum_wrong", "grouped sum (%s engine, index dtype %s): output %d differs from plain accumulation"
                                % (eng, idx.dtype, i), engine=eng, got=np.asarray(x).tolist()[:6], expected=y.tolist()[:6], **desc)
        for i, (x, y) in enumerate(zip(a, b)):
            if not same(x, y, rtol=1e-12, atol=1e-13):
                obs.violate("twin_kernels_differ_grouped_sum", "grouped sum output %d differs (max index %d, %d values)" % (i, top, k),
                            numpy=np.asarray(x).tolist()[:6], numba=np.asarray(y).tolist()[:6], **desc)
    except IndexError as e:
        obs.violate("grouped_sum_index_error", "grouped sum raised IndexError: %s" % e, **desc)


# ------------------------------------------------------------------------------------------------
def run_engines(case, obs):
    rng = rng_for("C07e", case["seed"], case["i"])
    thermal = case["i"] % 3 == 2
    if thermal:
        spec = netgen.gen_heating(rng) if rng.random() < 0.7 else netgen.gen_thermal_mesh(rng)
        mode = str(rng.choice(["sequential", "bidirectional"]))
        opts = dict(netgen.TIGHT)
    else:
        spec = netgen.gen_hydraulic(rng, fluid=str(rng.choice(["water", "lgas", "hydrogen", "hgas"])),
                                    features=[("valves", "pi_valves"), ("pump", "compressor", "mass_storage"),
                                              ("flow_control", "press_control", "heat_exchanger", "multi_grid")][int(rng.integers(3))],
                                    max_sections=4, label_scheme=str(rng.choice(["contiguous", "gaps", "large"])))
        if rng.random() < 0.5:
            spec = netgen.permute_rows(spec, rng)      # e.g. several loads of one junction in non-adjacent rows
        mode = "hydraulics"
        opts = dict(netgen.TIGHT, friction_model=str(rng.choice(["nikuradse", "colebrook", "swamee-jain"])),
                    nonlinear_method=str(rng.choice(["constant", "automatic"])), tolerance_colebrook=1e-12, max_iter_colebrook=200)
    snaps = {}
    for nbflag in (True, False):
        net = netgen.build(spec)
        out, _ = run_thermal(net, mode, dict(opts, use_numba=nbflag))
        if out != "ok":
            obs.count("engine_pair_not_comparable")
            return None
        snaps[nbflag] = snapshot(net)
    if nonunique_physics(snaps[True]):
        obs.count("engine_pair_not_comparable_zero_flow_pump")
        return None
    d, n, md = diff_snapshots(snaps[True], snaps[False], rtol=1e-7, atol=1e-9, col_atol={"qext_w": 1e-4})
    obs.count("engine_pairs_compared")
    obs.count("engine_values_compared", n)
    obs.maxi("max_rel_dev_engines", md)
    if thermal:
        obs.count("engine_pairs_thermal")
    elif spec["fluid"] != "water":
        obs.count("engine_pairs_gas")
    if d:
        obs.violate("engines_differ", "numba vs numpy: %d of %d values differ, first res_%s[%s].%s %s" % (len(d), n, d[0][0], d[0][1], d[0][2], d[0][3]),
                    differing=[list(x[:4]) for x in d[:8]], mode=mode)
    return {"net": netgen.spec_summary(spec), "mode": mode, "values_compared": n} if n >= 20 else None


LOAD_COLS = [("sink", "mdot_kg_per_s"), ("source", "mdot_kg_per_s"), ("flow_control", "controlled_mdot_kg_per_s"), ("heat_consumer", "controlled_mdot_kg_per_s")]


def run_update(case, obs):
    import pandapipes as pp
    rng = rng_for("C07u", case["seed"], case["i"])
    thermal = case["i"] % 3 == 2
    if thermal:
        spec = netgen.gen_heating(rng, max_sections=2) if rng.random() < 0.6 else netgen.gen_thermal_mesh(rng, two_feeders=bool(rng.random() < 0.3), max_sections=2)
        mode = str(rng.choice(["sequential", "bidirectional"]))
    else:
        fluid = str(rng.choice(["water", "lgas"]))
        feats = [("valves",), ("multi_grid", "mass_storage"), (), ("press_control", "multi_grid"), ("press_control", "valves", "pi_valves"),
                 ("pump", "flow_control") if fluid == "water" else ("compressor", "flow_control")][int(rng.integers(6))]
        spec = netgen.gen_hydraulic(rng, fluid=fluid, features=feats)
        mode = "hydraulics"
    numba = bool(rng.random() < 0.5)
    base_opts = dict(netgen.TIGHT, use_numba=numba, mode=mode)
    upd = {"only_update_hydraulic_matrix": True, "reuse_internal_data": bool(rng.random() < 0.8)}
    net = netgen.build(spec)
    steps = int(rng.integers(2, 5))
    total = 0
    for k in range(steps):
        if k:
            f = float(rng.uniform(0.3, 1.5))
            for t, col in LOAD_COLS:
                if t in net and len(net[t]):
                    net[t][col] = net[t][col].values * f
            obs.count("update_steps_with_changed_loads")
        out, _ = run_pipeflow(net, dict(base_opts, **upd))
        ref = netgen.build(spec)
        for t, col in LOAD_COLS:
            if t in net and len(net[t]):
                ref[t][col] = netgen.by_name(net, t)[col].reindex(ref[t]["name"].values).values
        rout, _ = run_pipeflow(ref, base_opts)
        if out != rout:
            obs.violate("update_option_changes_outcome", "step %d: %s with matrix update, %s fresh" % (k, out, rout), step=k, options=upd)
            return None
        if out != "ok":
            obs.count("update_step_not_comparable")
            return None
        d, n, md = diff_snapshots(snapshot(net), snapshot(ref), rtol=1e-9, atol=1e-11)
        total += n
        obs.maxi("max_rel_dev_update", md)
        if d:
            obs.violate("update_option_changes_results", "step %d with %s: %d values differ from a fresh run, first res_%s[%s].%s %s"
                        % (k, upd, len(d), d[0][0], d[0][1], d[0][2], d[0][3]), step=k, options=upd)
            return None
    obs.count("update_sequences_compared")
    obs.count("update_sequences_" + mode)
    if any(e["kind"] == "press_control" for e in spec["elements"]):
        obs.count("update_sequences_with_pressure_controller")
    return {"net": netgen.spec_summary(spec), "steps": steps, "options": upd, "values_compared": total}


def run_case(case, ctx):
    obs = Obs()
    sample = None
    if case["kind"] == "kernels":
        run_kernels(case, obs)
        nt = any(k.startswith("edge_") for k in obs.counters)
        sample = {"kernel_batch": case["i"], "edge_rows": {k: v for k, v in obs.counters.items() if k.startswith("edge_")}}
    elif case["kind"] == "engines":
        sample = run_engines(case, obs)
        nt = sample is not None
    else:
        sample = run_update(case, obs)
        nt = sample is not None
    rec = {"nontrivial": bool(nt), "sample": sample}
    rec.update(obs.record())
    return rec
