"""C04 - exactly the supplied part of the network is calculated, unaffected by the rest."""
import copy
import itertools
import math

import numpy as np

from pvmon import netgen, reach
from pvmon.compare import snapshot, diff_snapshots, nonunique_physics
from pvmon.monitors import Obs
from pvmon.props.common import rng_for, run_pipeflow

MANIFEST = {
    "text": "Held (up to the listed known findings) on every flag pattern driven through the real pipeflow: junction pressures are non-NaN exactly for the junctions an independent reachability search reaches, branch and load results are numbers exactly for in-service elements on supplied junctions, the supplied part's results equal those of the network with everything else deleted, and a pattern that supplies nothing raises PipeflowNotConverged. Small topologies are driven with all 2^k patterns of their flags in the thorough tier (sampled in quick), larger random nets with random patterns and row orders.",
    "note": "The reachability model is written from the statement; pipes carrying a pi valve and pi valves themselves are not judged for the branch clause; thermal columns of unsupplied elements are shown in evidence but only hydraulic columns are judged.",
    "technique": "runtime monitoring: reachability oracle over NaN patterns + deletion-equivalence metamorphic oracle on real runs, exhaustive flag patterns on small topologies",
}
RULE = ("five hand-built topologies (path with valves, tee with flow control and pressure control, two-feeder mesh with pi valve, "
        "heating loop with consumers and circulation pump, two grids with island) x all 2^k patterns of their 8-11 "
        "in_service/opened/control_active flags (thorough: exhaustive; quick: sampled) x {hydraulics, sequential for the loop}, plus "
        "seeded random gas/water nets with random outage patterns and permuted row order; non-trivial = the pattern leaves both "
        "a supplied and an unsupplied/out-of-service part; distinct = (topology, pattern) or case hash")
ASSUMPTIONS = ["junction in_service flags are only toggled together with... nothing: the model follows the statement, which does not mention the junction's own flag; ext grids on out-of-service junctions do not supply"]
CONFIG = {"quick": {"shards": 8, "timeout_s": 600, "patterns_per_topology": 140, "random": 160},
          "thorough": {"shards": 16, "timeout_s": 3000, "patterns_per_topology": None, "random": 3000}}
REQUIRED_COUNTERS = ["thermal_deletion_equivalence_checks", "patterns_judged", "junction_pattern_checks", "branch_pattern_checks", "load_pattern_checks",
                     "deletion_equivalence_checks", "nothing_supplied_checks", "patterns_mixed_supplied_unsupplied",
                     "patterns_random_nets", "patterns_heating_loop"]
EXHAUSTIVE = {"quick": False, "thorough": True}


def J(name, h=0.0, t=300.0):
    return {"name": name, "pn_bar": 5.0, "tfluid_k": t, "height_m": h, "in_service": True}


def pipe(name, a, b, **kw):
    e = {"kind": "pipe", "name": name, "from_junction": a, "to_junction": b, "length_km": 0.2, "inner_diameter_mm": 100.0,
         "k_mm": 0.1, "sections": 1, "in_service": True}
    e.update(kw)
    return e


def topologies():
    T = {}
    # T1 path with valves and a source
    T["path"] = ({"fluid": "water", "junctions": [J("a"), J("b"), J("c"), J("d"), J("e")], "elements": [
        {"kind": "ext_grid", "name": "eg0", "junction": "a", "p_bar": 5.0, "t_k": 300.0, "in_service": True},
        pipe("p0", "a", "b"), {"kind": "valve", "name": "v0", "junction": "b", "element": "c", "et": "ju", "inner_diameter_mm": 100.0, "opened": True, "loss_coefficient": 1.0},
        pipe("p1", "c", "d", sections=3), pipe("p2", "d", "e"), pipe("p3", "b", "e"),
        {"kind": "sink", "name": "s0", "junction": "c", "mdot_kg_per_s": 0.2, "scaling": 1.0, "in_service": True},
        {"kind": "sink", "name": "s1", "junction": "e", "mdot_kg_per_s": 0.3, "scaling": 1.0, "in_service": True},
        {"kind": "source", "name": "q0", "junction": "d", "mdot_kg_per_s": 0.05, "scaling": 1.0, "in_service": True},
        {"kind": "mass_storage", "name": "ms0", "junction": "d", "mdot_kg_per_s": 0.02, "scaling": 1.0, "in_service": True}]},
        [("p0", "in_service"), ("v0", "opened"), ("p1", "in_service"), ("p2", "in_service"), ("p3", "in_service"),
         ("s0", "in_service"), ("q0", "in_service"), ("ms0", "in_service"), ("eg0", "in_service")])
    # T2 tee with flow control, pressure control, pump
    T["tee"] = ({"fluid": "water", "junctions": [J("a"), J("b"), J("c"), J("d"), J("e"), J("f")], "elements": [
        {"kind": "ext_grid", "name": "eg0", "junction": "a", "p_bar": 6.0, "t_k": 300.0, "in_service": True},
        pipe("p0", "a", "b"), pipe("p1", "b", "c"),
        {"kind": "flow_control", "name": "fc0", "from_junction": "b", "to_junction": "d", "controlled_mdot_kg_per_s": 0.3, "control_active": True, "in_service": True},
        pipe("p2", "d", "c"),
        {"kind": "press_control", "name": "pc0", "from_junction": "c", "to_junction": "e", "controlled_junction": "e", "controlled_p_bar": 3.0, "control_active": True, "loss_coefficient": 0.0, "in_service": True},
        {"kind": "pump", "name": "pu0", "from_junction": "e", "to_junction": "f", "std_type": "P1", "in_service": True},
        {"kind": "sink", "name": "s0", "junction": "c", "mdot_kg_per_s": 0.2, "scaling": 1.0, "in_service": True},
        {"kind": "sink", "name": "s1", "junction": "d", "mdot_kg_per_s": 0.1, "scaling": 1.0, "in_service": True},
        {"kind": "sink", "name": "s2", "junction": "e", "mdot_kg_per_s": 0.2, "scaling": 1.0, "in_service": True},
        {"kind": "sink", "name": "s3", "junction": "f", "mdot_kg_per_s": 0.4, "scaling": 1.0, "in_service": True},
        # a second feeder behind the pressure controller: with the upstream part out of service the controller's
        # from-junction is unsupplied while its to-junction is fed from the other side
        {"kind": "ext_grid", "name": "eg1", "junction": "f", "p_bar": 3.5, "t_k": 300.0, "in_service": False}]},
        [("p0", "in_service"), ("p1", "in_service"), ("fc0", "control_active"), ("fc0", "in_service"), ("p2", "in_service"),
         ("pc0", "in_service"), ("pu0", "in_service"), ("s1", "in_service"), ("s3", "in_service"), ("eg1", "in_service")])
    # T3 two-feeder mesh with pi valve (probe e23 like), gas
    T["mesh"] = ({"fluid": "lgas", "junctions": [J("j%d" % i, t=290.0) for i in range(7)], "elements": [
        {"kind": "ext_grid", "name": "eg0", "junction": "j0", "p_bar": 1.0, "t_k": 290.0, "in_service": True},
        {"kind": "ext_grid", "name": "eg1", "junction": "j6", "p_bar": 0.95, "t_k": 290.0, "in_service": True},
        pipe("p0", "j0", "j1"), pipe("p1", "j1", "j2", sections=2),
        {"kind": "valve", "name": "v0", "junction": "j2", "element": "j3", "et": "ju", "inner_diameter_mm": 100.0, "opened": True, "loss_coefficient": 0.0},
        pipe("p2", "j1", "j4"), pipe("p4", "j4", "j3"), pipe("p5", "j3", "j5"), pipe("p3", "j5", "j6"),
        {"kind": "valve", "name": "v1", "junction": "j5", "element": "p3", "et": "pi", "inner_diameter_mm": 100.0, "opened": True, "loss_coefficient": 0.0},
        {"kind": "compressor", "name": "c0", "from_junction": "j4", "to_junction": "j2", "pressure_ratio": 1.02, "in_service": True},
        {"kind": "sink", "name": "s0", "junction": "j2", "mdot_kg_per_s": 0.002, "scaling": 1.0, "in_service": True},
        {"kind": "sink", "name": "s1", "junction": "j3", "mdot_kg_per_s": 0.003, "scaling": 1.0, "in_service": True},
        {"kind": "sink", "name": "s2", "junction": "j4", "mdot_kg_per_s": 0.001, "scaling": 1.0, "in_service": True},
        {"kind": "sink", "name": "s3", "junction": "j5", "mdot_kg_per_s": 0.002, "scaling": 1.0, "in_service": True}]},
        [("p0", "in_service"), ("p1", "in_service"), ("p2", "in_service"), ("p4", "in_service"), ("p5", "in_service"), ("p3", "in_service"),
         ("v0", "opened"), ("v1", "opened"), ("c0", "in_service"), ("eg0", "in_service"), ("eg1", "in_service")])
    # T4 heating loop
    T["loop"] = ({"fluid": "water", "junctions": [J("f0", t=350.0), J("f1", t=350.0), J("f2", t=350.0), J("r0", t=320.0), J("r1", t=320.0), J("r2", t=320.0), J("c0", t=290.0), J("c1", t=290.0)], "elements": [
        pipe("pc0", "c0", "c1", u_w_per_m2k=2.0, text_k=280.0),
        {"kind": "circ_pump_pressure", "name": "cp0", "return_junction": "r0", "flow_junction": "f0", "p_flow_bar": 6.0, "plift_bar": 2.0, "t_flow_k": 360.0, "in_service": True},
        pipe("pf1", "f0", "f1", u_w_per_m2k=3.0, text_k=280.0), pipe("pf2", "f1", "f2", u_w_per_m2k=3.0, text_k=280.0, sections=2),
        pipe("pr1", "r1", "r0", u_w_per_m2k=3.0, text_k=280.0), pipe("pr2", "r2", "r1", u_w_per_m2k=3.0, text_k=280.0),
        {"kind": "heat_consumer", "name": "hc1", "from_junction": "f1", "to_junction": "r1", "qext_w": 20000.0, "controlled_mdot_kg_per_s": 0.4, "in_service": True},
        {"kind": "heat_consumer", "name": "hc2", "from_junction": "f2", "to_junction": "r2", "controlled_mdot_kg_per_s": 0.5, "deltat_k": 20.0, "in_service": True},
        {"kind": "flow_control", "name": "fc2", "from_junction": "f2", "to_junction": "r2", "controlled_mdot_kg_per_s": 0.2, "control_active": True, "in_service": True},
        {"kind": "valve", "name": "vb", "junction": "f1", "element": "r1", "et": "ju", "inner_diameter_mm": 20.0, "opened": False, "loss_coefficient": 50.0},
        {"kind": "circ_pump_pressure", "name": "cp1", "return_junction": "r2", "flow_junction": "f2", "p_flow_bar": 5.5, "plift_bar": 1.5, "t_flow_k": 355.0, "in_service": False},
        # a line fed by a pressure-only grid: hydraulically supplied, without temperature source; its pipes stand first in the table
        {"kind": "ext_grid", "name": "eg_cold", "junction": "c0", "p_bar": 4.0, "t_k": 285.0, "type": "p", "in_service": True},
        {"kind": "sink", "name": "s_cold", "junction": "c1", "mdot_kg_per_s": 0.3, "scaling": 1.0, "in_service": True}]},
        [("eg_cold", "in_service"), ("pf1", "in_service"), ("pf2", "in_service"), ("pr1", "in_service"), ("pr2", "in_service"), ("hc1", "in_service"),
         ("hc2", "in_service"), ("fc2", "in_service"), ("fc2", "control_active"), ("vb", "opened"), ("cp0", "in_service"), ("cp1", "in_service")])
    # T5 two grids (one may be off) and an island
    T["island"] = ({"fluid": "water", "junctions": [J("a"), J("b"), J("c"), J("x"), J("y")], "elements": [
        {"kind": "ext_grid", "name": "eg0", "junction": "a", "p_bar": 5.0, "t_k": 300.0, "in_service": True},
        {"kind": "ext_grid", "name": "eg1", "junction": "x", "p_bar": 4.0, "t_k": 300.0, "in_service": True},
        {"kind": "ext_grid", "name": "egt", "junction": "y", "p_bar": 4.0, "t_k": 300.0, "type": "t", "in_service": True},
        pipe("p0", "a", "b"), pipe("p1", "b", "c"), pipe("pl", "c", "x"), pipe("p2", "x", "y"),
        {"kind": "heat_exchanger", "name": "hx", "from_junction": "b", "to_junction": "c", "qext_w": 1000.0, "inner_diameter_mm": 80.0, "loss_coefficient": 2.0, "in_service": True},
        {"kind": "sink", "name": "s0", "junction": "c", "mdot_kg_per_s": 0.3, "scaling": 2.0, "in_service": True},
        {"kind": "sink", "name": "s1", "junction": "y", "mdot_kg_per_s": 0.1, "scaling": 1.0, "in_service": True},
        {"kind": "source", "name": "q1", "junction": "b", "mdot_kg_per_s": 0.1, "scaling": 1.0, "in_service": True}]},
        [("eg0", "in_service"), ("eg1", "in_service"), ("p0", "in_service"), ("p1", "in_service"), ("pl", "in_service"),
         ("p2", "in_service"), ("hx", "in_service"), ("s0", "in_service"), ("q1", "in_service"), ("J:x", "in_service")])
    return T


def gen_cases(tier, seed):
    cfg = CONFIG[tier]
    out = []
    for tname, (spec, flags) in topologies().items():
        k = len(flags)
        allp = list(range(2 ** k))
        if cfg["patterns_per_topology"] is None:
            chosen = allp
        else:
            rng = rng_for("C04pat", seed, tname)
            chosen = sorted(int(x) for x in rng.choice(allp, min(cfg["patterns_per_topology"], len(allp)), replace=False))
            chosen = sorted(set(chosen) | {0, 2 ** k - 1})
        # batch patterns so that one case is ~30 pipeflows
        for b in range(0, len(chosen), 16):
            out.append({"kind": "topo", "topology": tname, "patterns": chosen[b:b + 16]})
    for i in range(cfg["random"]):
        out.append({"kind": "random", "seed": seed, "i": i})
    return out


def apply_pattern(spec, flags, bits):
    spec = copy.deepcopy(spec)
    els = {e["name"]: e for e in spec["elements"]}
    els.update({"J:" + j["name"]: j for j in spec["junctions"]})
    for n, (name, col) in enumerate(flags):
        els[name][col] = bool((bits >> n) & 1)
    return spec


def random_case(case):
    rng = rng_for("C04", case["seed"], case["i"])
    spec = netgen.gen_hydraulic(rng, features=[("valves", "pi_valves", "closed", "oos"), ("flow_control", "press_control", "oos"),
                                               ("pump", "compressor", "islands", "multi_grid", "oos", "valves", "mass_storage")][int(rng.integers(3))],
                                label_scheme=str(rng.choice(["contiguous", "shuffled", "gaps", "large"])))
    for e in spec["elements"]:
        r = rng.random()
        if e["kind"] in ("pipe", "pump", "compressor", "press_control", "heat_exchanger") and r < 0.15:
            e["in_service"] = False
        elif e["kind"] == "valve" and r < 0.3:
            e["opened"] = False
        elif e["kind"] == "flow_control" and r < 0.4:
            e["control_active"] = not e["control_active"]
        elif e["kind"] == "ext_grid" and r < 0.15:
            e["in_service"] = False
    spec = netgen.permute_rows(spec, rng)
    return spec


def judge(spec, mode, obs, label):
    """Run one flag pattern through the real pipeflow and judge it."""
    reached = reach.supplied_junctions(spec)
    opts = dict(netgen.TIGHT, mode=mode)
    try:
        net = netgen.build(spec)
    except Exception as e:
        obs.count("pattern_refused_at_creation")
        return False
    outcome, exc = run_pipeflow(net, opts)
    desc = {"pattern": label, "mode": mode, "reached": sorted(reached)}
    obs.count("patterns_judged")
    if not reached:
        obs.count("nothing_supplied_checks")
        if outcome != "not_converged":
            obs.violate("nothing_supplied_but_returned", "no junction is supplied, pipeflow outcome: %s" % outcome, **desc)
        return False
    if outcome != "ok":
        obs.count("pattern_outcome_" + outcome)
        if outcome.startswith("error:") and outcome.split(":")[1] in ("IndexError", "KeyError", "ValueError", "TypeError", "ZeroDivisionError", "AttributeError"):
            obs.violate("pipeflow_crashes_on_outage_pattern", "a supplied part exists (%d junctions) but pipeflow raised %s: %s"
                        % (len(reached), outcome.split(":")[1], str(exc)[:120]), **desc)
        if outcome == "not_converged":
            # the supplied part must be unaffected by the rest: if it can be calculated on its own, it must be calculated here
            pnet = netgen.build(reach.prune(spec, reached))
            pout, _ = run_pipeflow(pnet, opts)
            obs.count("failed_pattern_vs_pruned_checks")
            if pout == "ok":
                obs.violate("supplied_part_not_calculated", "pipeflow does not converge although the supplied part alone (%d junctions) does"
                            % len(reached), **desc)
        return False
    mixed = len(reached) < len(spec["junctions"]) or any(e.get("in_service") is False or e.get("opened") is False for e in spec["elements"])
    if mixed:
        obs.count("patterns_mixed_supplied_unsupplied")
    # ---- junction clause
    rj = netgen.by_name(net, "junction", res=True)
    for jn in rj.index:
        obs.count("junction_pattern_checks")
        has_p = not math.isnan(float(rj.at[jn, "p_bar"]))
        if has_p != (jn in reached):
            obs.violate("junction_supply_pattern", "junction %s: pressure result %s but the reachability model says %s"
                        % (jn, "present" if has_p else "NaN", "supplied" if jn in reached else "unsupplied"), junction=jn, **desc)
    # ---- branch clause (hydraulic columns)
    exp = reach.expected_branch_active(spec, reached)
    for t in netgen.BRANCH_TABLES:
        rt = netgen.by_name(net, t, res=True)
        if rt is None or not len(rt):
            continue
        hyd_cols = [c for c in rt.columns if c in ("p_from_bar", "p_to_bar", "mdot_from_kg_per_s", "mdot_to_kg_per_s")]
        for name in rt.index:
            want = exp.get(name)
            if want is None:
                obs.count("branch_rows_not_judged_pi_valve")
                continue
            obs.count("branch_pattern_checks")
            vals = [float(rt.at[name, c]) for c in hyd_cols]
            has_num = any(not math.isnan(v) for v in vals)
            all_num = all(not math.isnan(v) for v in vals)
            if want and not all_num:
                obs.violate("active_branch_without_results", "res_%s[%s] lacks hydraulic results although in service on supplied junctions" % (t, name), **desc)
            if not want and has_num:
                obs.violate("inactive_branch_reports_hydraulics", "res_%s[%s] holds hydraulic numbers although inactive/unsupplied" % (t, name), **desc)
            if not want:
                extra = [c for c in rt.columns if c not in hyd_cols and not math.isnan(float(rt.at[name, c]))]
                if extra:
                    obs.violate("inactive_reports_" + t, "res_%s[%s] is inactive/unsupplied but reports %s"
                                % (t, name, {c: float(rt.at[name, c]) for c in extra}), table=t, columns=extra, **desc)
    # ---- loads and feeders
    for t in ("sink", "source", "mass_storage", "ext_grid"):
        rt = netgen.by_name(net, t, res=True)
        if rt is None or not len(rt):
            continue
        et = netgen.by_name(net, t)
        jname = net.junction["name"]
        for name in rt.index:
            obs.count("load_pattern_checks")
            jn = jname.at[et.at[name, "junction"]]
            jserv = bool(net.junction.at[et.at[name, "junction"], "in_service"])
            if not jserv and jn in reached:
                # inconsistent input (out-of-service junction on in-service branches): the statement does not say
                # whether elements at such a junction take part
                obs.count("loads_at_reactivated_junction_not_judged")
                continue
            want = bool(et.at[name, "in_service"]) and jn in reached and jserv
            if t == "ext_grid" and "p" not in str(et.at[name, "type"]):
                continue
            v = float(rt.at[name, "mdot_kg_per_s"])
            if want and math.isnan(v):
                obs.violate("active_load_without_result", "res_%s[%s] is NaN although in service on a supplied junction" % (t, name), **desc)
            if not want and not math.isnan(v):
                obs.violate("inactive_reports_" + t, "res_%s[%s] reports %r although out of service / unsupplied"
                            % (t, name, v), table=t, columns=["mdot_kg_per_s"], **desc)
    # ---- deletion equivalence
    if mixed:
        pruned = reach.prune(spec, reached)
        pnet = netgen.build(pruned)
        pout, _ = run_pipeflow(pnet, opts)
        s_full = snapshot(net)
        if pout != "ok":
            obs.count("deletion_not_comparable")
        elif nonunique_physics(s_full):
            obs.count("deletion_not_comparable_zero_flow_pump")
        else:
            s_pr = snapshot(pnet)
            names = {t: set(rows) for t, rows in s_pr.items()}
            sub = {t: {n: r for n, r in rows.items() if n in names.get(t, ())} for t, rows in s_full.items() if t in s_pr}
            d, n, md = diff_snapshots(sub, s_pr, rtol=1e-7, atol=1e-9, col_atol={"qext_w": 1e-5})
            obs.count("deletion_equivalence_checks")
            obs.count("deletion_values_compared", n)
            obs.maxi("max_rel_dev_deletion", md)
            if d:
                obs.violate("supplied_part_depends_on_the_rest", "results of the supplied part differ from the pruned network: "
                            "res_%s[%s].%s %s (%d differences)" % (d[0][0], d[0][1], d[0][2], d[0][3], len(d)), **desc)
    # ---- thermal connectivity: a hydraulically supplied part without any temperature source is no part of the thermal
    # calculation; the results of the thermally supplied part equal those of the network without it
    if mode in ("sequential", "bidirectional"):
        hyd = reach.prune(spec, reached)
        warm = thermally_supplied(hyd)
        if warm and len(warm) < len(hyd["junctions"]):
            tnet = netgen.build(reach.prune(hyd, warm))
            tout, _ = run_pipeflow(tnet, opts)
            if tout != "ok":
                obs.count("thermal_deletion_not_comparable")
            else:
                s_full, s_t = snapshot(net), snapshot(tnet)
                sub = {t: {n: r for n, r in rows.items() if n in s_t[t]} for t, rows in s_full.items() if t in s_t}
                d, n, md = diff_snapshots(sub, s_t, rtol=1e-7, atol=1e-9, col_atol={"qext_w": 1e-5})
                obs.count("thermal_deletion_equivalence_checks")
                if d:
                    obs.violate("thermally_supplied_part_depends_on_the_rest", "results of the thermally supplied part differ from the network without the "
                                "part that has no temperature source: res_%s[%s].%s %s (%d differences)" % (d[0][0], d[0][1], d[0][2], d[0][3], len(d)), **desc)
    return mixed


def thermally_supplied(spec):
    """Junction names reachable from a temperature-fixing feeder over the branch elements of a (hydraulically pruned) spec."""
    start = set()
    for e in spec["elements"]:
        if e["kind"] == "ext_grid" and "t" in str(e.get("type", "pt")):
            start.add(e["junction"])
        elif e["kind"] in ("circ_pump_mass", "circ_pump_pressure"):
            start.add(e["flow_junction"])
    adj = {}
    for e in spec["elements"]:
        a = e.get("from_junction", e.get("return_junction"))
        b = e.get("to_junction", e.get("flow_junction"))
        if e["kind"] == "valve" and e["et"] == "ju":
            a, b = e["junction"], e["element"]
        if a is not None and b is not None and e["kind"] != "press_control_x":
            adj.setdefault(a, set()).add(b)
            adj.setdefault(b, set()).add(a)
    seen, todo = set(start), list(start)
    while todo:
        x = todo.pop()
        for y in adj.get(x, ()):
            if y not in seen:
                seen.add(y)
                todo.append(y)
    return seen


def run_case(case, ctx):
    obs = Obs()
    nontrivial = 0
    sample = None
    if case["kind"] == "topo":
        spec0, flags = topologies()[case["topology"]]
        for bits in case["patterns"]:
            spec = apply_pattern(spec0, flags, bits)
            modes = ["hydraulics"] if case["topology"] != "loop" else ["sequential"]
            for mode in modes:
                m = judge(spec, mode, obs, "%s:%s" % (case["topology"], format(bits, "0%db" % len(flags))))
                nontrivial += bool(m)
                if case["topology"] == "loop":
                    obs.count("patterns_heating_loop")
        sample = {"topology": case["topology"], "flags": ["%s.%s" % f for f in flags],
                  "patterns": [format(b, "0%db" % len(flags)) for b in case["patterns"][:4]]}
    else:
        spec = random_case(case)
        m = judge(spec, "hydraulics", obs, "random:%d" % case["i"])
        obs.count("patterns_random_nets")
        nontrivial += bool(m)
        sample = {"case": case, "net": netgen.spec_summary(spec)}
    rec = {"nontrivial": nontrivial > 0, "sample": sample if nontrivial else None, "evaluations": obs.counters.get("patterns_judged", 0)}
    rec.update(obs.record())
    return rec
