"""C05 - a returned result is converged and finite; a failed run leaves no results."""
import itertools
import math

import numpy as np

from pvmon import netgen
from pvmon.monitors import Obs
from pvmon.props.common import suite_cases, run_suite_case, rng_for

MANIFEST = {
    "text": "Held on every observed run: (A) the Newton trace delivered by the guarded hook shows that each normally returned pipeflow ended every stage on an undamped, in-tolerance, finite step with net.converged set and finite results, and each PipeflowNotConverged stayed within its budget, left net.converged false and every result table without a number - also along histories of good and bad runs on one object, for feasible, infeasible, singular and NaN-producing nets in all four modes, and every returned hydraulics run lies within the trace-implied bound of a tightly converged solve of the same network; (B) the real iteration driver fed with all scripted error/residual sequences up to the stated length agrees with a reference state machine of the documented damping rules.",
    "note": "The trace is observed through hook H2 (one event per Newton iteration after finalize_iteration); exception types other than PipeflowNotConverged are counted and shown, not judged, except crash types escaping from numpy/scipy.",
    "technique": "runtime monitoring: online trace checker on hook events of real runs + bounded-exhaustive scripted driving of the real newton_raphson against a reference state machine",
}
RULE = ("(A) seeded call histories of 1-5 pipeflow calls on one net object over feasible, infeasible (demand beyond supply, "
        "pressure collapse), singular, NaN-parameter and budget-starved nets x modes hydraulics/sequential/bidirectional/heat "
        "x damping constant/automatic x tolerances; (B) driver scripts: every sequence of per-iteration symbols (11 error "
        "patterns incl. NaN x residual in/out of tolerance) of length = budget for the budgets given in evidence, both "
        "damping methods; non-trivial = a history with >= 1 observed Newton stage, or a driver batch; distinct = case hash")
ASSUMPTIONS = ["hook H2 reports the alpha used for the step, the per-variable error, the tolerances and the verdict of each iteration"]
CONFIG = {"quick": {"shards": 8, "timeout_s": 600, "histories": 420, "driver_budgets": [1, 2, 3]},
          "thorough": {"shards": 16, "timeout_s": 3000, "histories": 9000, "driver_budgets": [1, 2, 3, 4]}}
REQUIRED_COUNTERS = ["stage_unknown_sets_checked_bidirectional", "stage_unknown_sets_checked_hydraulics", "stage_unknown_sets_checked_heat", "failures_before_first_iteration_after_success", "stage_endings_judged_against_requested_tolerances", "stage_endings_with_unequal_tolerances", "returns_checked", "failures_checked", "stages_converged", "stages_exhausted", "nr_iterations_observed",
                     "failure_after_success_checked", "driver_scripts", "driver_converged", "driver_step_rejections",
                     "runs_automatic", "returned_flows_vs_tight_solution_checks", "runs_mode_bidirectional", "runs_mode_sequential", "runs_mode_heat"]
EXHAUSTIVE = {"quick": False, "thorough": False}

_TRACE = []


def worker_init(ctx):
    import pandapipes._verif as v
    if not v.ENABLED:
        raise RuntimeError("PANDAPIPES_VERIF hooks are not enabled")
    v.register(lambda ev, p: _TRACE.append((ev, {k: x for k, x in p.items() if k != "net"})))


# ------------------------------------------------------------------------------------------------
# Oracle B: scripted iteration driver
# ------------------------------------------------------------------------------------------------
LEVELS_IN = [2.0 ** -27, 2.0 ** -26, 2.0 ** -25]   # exactly representable increments: no round-off in 'error rose'
LEVELS_OUT = [1.0, 2.0, 4.0]
ERR_SYMBOLS = [(l, l, l) for l in LEVELS_IN + LEVELS_OUT] + [(1.0, 2.0, 2.0), (2.0, 1.0, 1.0), (2.0 ** -26, 2.0 ** -25, 2.0 ** -27),
                                                              (2.0 ** -25, 2.0, 2.0 ** -26), (float("nan"),) * 3]
RES_SYMBOLS = [1e-9, 1.0]
SYMBOLS = [(e, r) for e in ERR_SYMBOLS for r in RES_SYMBOLS]
TOL, TOL_RES = 1e-5, 1e-3


def driver_cases(tier):
    out = []
    for method in ("constant", "automatic"):
        for b in CONFIG[tier]["driver_budgets"]:
            nchunks = 1 if b < 3 else (4 if b == 3 else 64)
            for c in range(nchunks):
                out.append({"kind": "driver", "method": method, "budget": b, "chunk": c, "nchunks": nchunks})
    return out


def reference(script, method, budget):
    """Reference state machine of the documented damping / convergence rules."""
    alpha, conv, n = 1.0, False, 0
    alphas, restored = [], []
    prev = None
    while not conv and n < budget:
        e, r = script[n]
        alphas.append(alpha)
        finite = not any(math.isnan(x) for x in e) and not math.isnan(r)
        intol = finite and all(x <= TOL for x in e) and r <= TOL_RES
        if method == "automatic":
            inc = [False] * 3 if prev is None else [x > p for x, p in zip(e, prev)]
            if all(inc):
                alpha = alpha / 10 if alpha >= 0.1 else alpha
            else:
                alpha = alpha * 10 if alpha <= 0.1 else 1.0
            restored.append(inc)
            conv = intol and alphas[-1] == 1.0 and alpha == 1.0
        else:
            restored.append([False] * 3)
            conv = intol
        prev = e
        n += 1
    return conv, n, alphas, restored


def run_driver(case, obs):
    import pandapipes as pp
    import sys
    pfmod = sys.modules["pandapipes.pipeflow"]
    from pandapipes.pf.pipeflow_setup import init_options, create_lookups, initialize_pit, \
        identify_active_nodes_branches, reduce_pit
    from pandapipes.idx_branch import MDOTINIT
    from pandapipes.idx_node import PINIT, MDOTSLACKINIT, NODE_TYPE, P
    net = pp.create_empty_network(fluid="water")
    j = pp.create_junctions(net, 3, 1.0, 300.0)
    pp.create_ext_grid(net, j[0], 2.0, 300.0)
    pp.create_pipe_from_parameters(net, j[0], j[1], 0.1, 100.0)
    pp.create_pipe_from_parameters(net, j[1], j[2], 0.1, 100.0)
    pp.create_sink(net, j[2], 0.5)
    method, budget = case["method"], case["budget"]
    scripts = itertools.product(SYMBOLS, repeat=budget)
    state = {}

    def funct(net_):
        k = state["k"]
        e, r = state["script"][k]
        bp, npit = net_["_active_pit"]["branch"], net_["_active_pit"]["node"]
        slack = np.where(npit[:, NODE_TYPE] == P)[0]
        old = [bp[:, MDOTINIT].copy(), npit[:, PINIT].copy(), npit[slack, MDOTSLACKINIT].copy()]
        if any(math.isnan(x) for x in e):
            # a NaN step (singular linear solve) is reported without poisoning the state for the following symbols
            state["old"].append(old)
            state["new"].append([o.copy() for o in old])
            state["k"] = k + 1
            return [old[0] + e[0], old[0], old[1] + e[1], old[1], old[2] + e[2], old[2]], np.array([r]), [None, None, slack]
        bp[:, MDOTINIT] = old[0] + e[0]
        npit[:, PINIT] = old[1] + e[1]
        npit[slack, MDOTSLACKINIT] = old[2] + e[2]
        state["old"].append(old)
        state["new"].append([bp[:, MDOTINIT].copy(), npit[:, PINIT].copy(), npit[slack, MDOTSLACKINIT].copy()])
        state["k"] = k + 1
        return [bp[:, MDOTINIT], old[0], npit[:, PINIT], old[1], npit[slack, MDOTSLACKINIT], old[2]], \
            np.array([r]), [None, None, slack]

    for si, script in enumerate(scripts):
        if si % case["nchunks"] != case["chunk"]:
            continue
        init_options(net, nonlinear_method=method, max_iter_hyd=budget, tol_m=TOL, tol_p=TOL, tol_res=TOL_RES, alpha=1)
        create_lookups(net)
        initialize_pit(net)
        net.converged = False
        identify_active_nodes_branches(net)
        reduce_pit(net, mode="hydraulics")
        # round start values: every later value is a short sum of powers of two, so 'error rose' is exact
        net["_active_pit"]["branch"][:, MDOTINIT] = 0.5
        net["_active_pit"]["node"][:, PINIT] = 2.0
        net["_active_pit"]["node"][:, MDOTSLACKINIT] = 0.0
        state.update(k=0, script=script, old=[], new=[])
        del _TRACE[:]
        pfmod.newton_raphson(net, funct, "hydraulics", ["mdot", "p", "mdotslack"], [TOL, TOL, TOL],
                             ["branch", "node", "node"], "max_iter_hyd")
        iters = [p for ev, p in _TRACE if ev == "nr_iter"]
        conv, n_ref, alphas_ref, restored_ref = reference(script, method, budget)
        got_conv = bool(net.converged)
        niter = len(iters)
        obs.count("driver_scripts")
        if got_conv:
            obs.count("driver_converged")
        desc = {"method": method, "budget": budget, "script": [[list(e), r] for e, r in script]}
        if niter > budget or (not got_conv and niter != budget):
            obs.violate("driver_budget", "driver ran %d iterations with budget %d (converged=%s)" % (niter, budget, got_conv), **desc)
            continue
        alphas = [float(p["alpha_used"]) for p in iters]
        if got_conv:
            last = iters[-1]
            e, r = script[niter - 1]
            intol = all((not math.isnan(x)) and x <= TOL for x in e) and r <= TOL_RES
            if not intol:
                obs.violate("driver_converged_out_of_tolerance", "driver reports convergence on errors %s residual %s" % (e, r), **desc)
            elif float(last["alpha_used"]) != 1.0:
                obs.violate("converged_on_damped_step", "driver accepts a step taken with alpha=%s (alphas %s)"
                            % (last["alpha_used"], alphas), alphas=alphas, **desc)
        if got_conv != conv and not (got_conv and not conv):
            # the reference is the necessary condition; not converging where the reference would is only reported
            obs.count("driver_stricter_than_reference")
        if alphas[:min(len(alphas), len(alphas_ref))] != alphas_ref[:min(len(alphas), len(alphas_ref))]:
            obs.violate("driver_alpha_history", "alpha history %s, reference %s" % (alphas, alphas_ref), **desc)
        # step rejection restores exactly the variables whose error rose (checked on the last iteration's state)
        if method == "automatic" and niter:
            inc = restored_ref[niter - 1] if niter - 1 < len(restored_ref) else None
            if inc is not None:
                bp, npit = net["_active_pit"]["branch"], net["_active_pit"]["node"]
                slack = np.where(npit[:, NODE_TYPE] == P)[0]
                cur = [bp[:, MDOTINIT], npit[:, PINIT], npit[slack, MDOTSLACKINIT]]
                for v, (c, o, nw, up) in enumerate(zip(cur, state["old"][niter - 1], state["new"][niter - 1], inc)):
                    # an accepted (converging) step is kept as a whole; otherwise variables whose error rose go back
                    up = up and not got_conv
                    want = o if up else nw
                    if up:
                        obs.count("driver_step_rejections")
                    if not np.array_equal(c, want, equal_nan=True):
                        obs.violate("driver_step_rejection", "variable %d %s after an iteration whose error %s"
                                    % (v, "not restored" if up else "restored", "rose" if up else "did not rise"), **desc)


# ------------------------------------------------------------------------------------------------
# Oracle A: real runs
# ------------------------------------------------------------------------------------------------
MODES = ["hydraulics", "sequential", "bidirectional", "heat"]


def gen_cases(tier, seed):
    out = [{"kind": "history", "seed": seed, "i": i} for i in range(CONFIG[tier]["histories"])]
    _cases = out + driver_cases(tier)
    if tier == "thorough":
        _cases = list(_cases) + suite_cases()
    return _cases


def hostile(spec, rng, how):
    """Turn a feasible spec into a hostile one."""
    els = spec["elements"]
    sinks = [e for e in els if e["kind"] == "sink"]
    pipes = [e for e in els if e["kind"] == "pipe"]
    if how == "overload" and sinks:
        for e in sinks:
            e["mdot_kg_per_s"] *= float(rng.choice([30, 300, 3000]))
    elif how == "nan_param" and pipes:
        p = pipes[int(rng.integers(len(pipes)))]
        p[str(rng.choice(["k_mm", "length_km", "inner_diameter_mm"]))] = float("nan")
    elif how == "zero_diameter" and pipes:
        pipes[int(rng.integers(len(pipes)))]["inner_diameter_mm"] = 0.0
    elif how == "nan_load" and sinks:
        sinks[0]["mdot_kg_per_s"] = float("nan")
    elif how == "no_supply":
        # every feeder switched off: nothing is supplied, the run fails before the first Newton iteration
        for e in els:
            if e["kind"] in ("ext_grid", "circ_pump_mass", "circ_pump_pressure"):
                e["in_service"] = False
    elif how == "tiny_pipe" and pipes:
        p = pipes[int(rng.integers(len(pipes)))]
        p["inner_diameter_mm"] = 1.0
        p["length_km"] = 50.0
    return spec


def make_history(case):
    rng = rng_for("C05", case["seed"], case["i"])
    thermal = rng.random() < 0.5
    if thermal:
        spec = netgen.gen_heating(rng) if rng.random() < 0.6 else netgen.gen_thermal_mesh(rng)
        if spec.get("heating", {}).get("source") != "passive" and rng.random() < 0.4:
            netgen.add_cold_line(spec, rng)     # hydraulically active, thermally not: the two stages work on different tables
        if rng.random() < 0.5:
            # start temperatures far from the solution: errors rise and fall on the way, the damping strategy has to act
            for j in spec["junctions"]:
                j["tfluid_k"] = float(rng.uniform(290, 380))
    else:
        spec = netgen.gen_hydraulic(rng, features=[("valves",), ("pump", "compressor"), ("flow_control", "press_control"),
                                                   ("islands", "oos")][int(rng.integers(4))])
    how = str(rng.choice(["none", "none", "overload", "nan_param", "zero_diameter", "nan_load", "tiny_pipe", "no_supply"]))
    bad = hostile(__import__("copy").deepcopy(spec), rng, how)
    calls = []
    for k in range(int(rng.integers(1, 6))):
        mode = str(rng.choice(MODES if thermal else ["hydraulics"]))
        opts = {"mode": mode, "use_numba": bool(rng.random() < 0.5)}
        r = rng.random()
        if r < 0.45:
            opts.update(nonlinear_method="automatic")
        elif r < 0.6:
            opts.update(nonlinear_method="constant", alpha=float(rng.choice([0.5, 0.8])))
        b = rng.random()
        if b < 0.25:
            opts["iter"] = int(rng.integers(1, 5))       # budget-starved
        elif b < 0.4:
            opts.update(max_iter_hyd=int(rng.integers(1, 30)), max_iter_therm=int(rng.integers(1, 30)),
                        max_iter_bidirect=int(rng.integers(1, 30)))
        else:
            opts["iter"] = 100
        t = rng.random()
        if t < 0.3:
            opts.update(tol_p=1e-9, tol_m=1e-9, tol_res=1e-8, tol_T=1e-8)
        elif t < 0.4:
            opts.update(tol_p=1e-14, tol_m=1e-14, tol_res=1e-15)     # unreachable tolerances
        elif t < 0.65:
            # unequal tolerances, loose residual bound: the step criteria alone decide when the loop stops
            opts.update(tol_p=float(rng.choice([1e-9, 1e-7, 1e-4, 5e-2])), tol_m=float(rng.choice([1e-9, 1e-7, 1e-4, 5e-2])),
                        tol_T=float(rng.choice([1e-8, 1e-3, 1e-1])), tol_res=float(rng.choice([1e-3, 1.0])))
        calls.append({"opts": opts, "use_bad": bool(how != "none" and rng.random() < 0.6)})
    return spec, bad, how, calls


def tables_hold_numbers(net):
    out = []
    for k in list(net.keys()):
        if isinstance(k, str) and k.startswith("res_") and hasattr(net[k], "columns") and len(net[k]):
            df = net[k]
            num = df.select_dtypes(include=[np.number])
            if num.notna().values.any():
                out.append(k)
    return out


TOL_OF = {"mdot": "tol_m", "p": "tol_p", "mdotslack": "tol_m", "T": "tol_T", "Tout": "tol_T", "TOUT": "tol_T"}
UNKNOWNS = {"hydraulics": {"mdot", "p", "mdotslack"}, "heat": {"tout", "t"}, "bidirectional": {"mdot", "p", "mdotslack", "tout", "t"}}
BUDGET_OF = {"hydraulics": "max_iter_hyd", "heat": "max_iter_therm", "bidirectional": "max_iter_bidirect"}
TOL_DEFAULT = {"tol_m": 1e-5, "tol_p": 1e-5, "tol_T": 1e-3, "tol_res": 1e-3}


def check_trace(obs, trace, returned, opts, desc):
    """Online checker of one pipeflow call's Newton trace."""
    stages = []
    cur = []
    for ev, p in trace:
        if ev == "nr_iter":
            cur.append(p)
        elif ev == "nr_end":
            stages.append((p, cur))
            cur = []
    for end, iters in stages:
        obs.count("nr_iterations_observed", len(iters))
        if end["mode"] in BUDGET_OF:
            asked = int(opts.get(BUDGET_OF[end["mode"]], opts.get("iter", 10)))
            obs.count("stage_budgets_judged_against_requested")
            if int(end["max_iter"]) != asked:
                obs.violate("stage_ran_under_other_budget", "stage %s ran under a budget of %d iterations, the options ask for %d"
                            % (end["mode"], int(end["max_iter"]), asked), **desc)
        # the statement speaks of the change of EVERY unknown: a stage whose trace does not report one of them cannot have checked it
        want_unknowns = UNKNOWNS.get(end["mode"])
        if want_unknowns and iters:
            got_unknowns = {str(k).lower() for k in iters[-1]["errors"]}
            obs.count("stage_unknown_sets_checked_" + end["mode"])
            if not want_unknowns <= got_unknowns:
                obs.violate("stage_does_not_check_every_unknown", "stage %s reports the change of %s, its unknowns are %s"
                            % (end["mode"], sorted(got_unknowns), sorted(want_unknowns)), **desc)
        if int(end["niter"]) > int(end["max_iter"]):
            obs.violate("budget_exceeded", "stage %s ran %d iterations, budget %d" % (end["mode"], end["niter"], end["max_iter"]), **desc)
        if bool(end["converged"]):
            obs.count("stages_converged")
            last = iters[-1]
            errs = {k: float(v) for k, v in last["errors"].items()}
            # judged against the tolerances the caller asked for (the option layer), not against what the loop says it used
            tols = {k: float(opts.get(TOL_OF[k], TOL_DEFAULT[TOL_OF[k]])) if k in TOL_OF else float(v) for k, v in last["tols"].items()}
            asked_res = float(opts.get("tol_res", TOL_DEFAULT["tol_res"]))
            if any(k in TOL_OF for k in errs):
                obs.count("stage_endings_judged_against_requested_tolerances")
            if len({tols[k] for k in tols}) > 1:
                obs.count("stage_endings_with_unequal_tolerances")
            rn = float(last["residual_norm"])
            bad = [k for k in errs if math.isnan(errs[k]) or errs[k] > tols[k]]
            if bad or math.isnan(rn) or rn > min(float(last["tol_res"]), asked_res):
                obs.violate("stage_converged_out_of_tolerance", "stage %s marked converged with errors %s (tols %s), residual %.3g (tol %.3g)"
                            % (end["mode"], errs, tols, rn, last["tol_res"]), **desc)
            if last["nonlinear_method"] == "automatic":
                obs.count("automatic_stage_endings")
                if float(last["alpha_used"]) != 1.0:
                    obs.violate("converged_on_damped_step", "stage %s (automatic) accepted a step taken with alpha=%s"
                                % (end["mode"], last["alpha_used"]), alphas=[float(p["alpha_used"]) for p in iters], **desc)
            if any(float(p["alpha_used"]) < 1 for p in iters):
                obs.count("stages_with_damped_steps")
        else:
            obs.count("stages_exhausted")
            if int(end["niter"]) != int(end["max_iter"]):
                obs.violate("stage_gave_up_early", "stage %s stopped unconverged after %d of %d iterations"
                            % (end["mode"], end["niter"], end["max_iter"]), **desc)
            if any(math.isnan(float(v)) for p in iters for v in p["errors"].values()):
                obs.count("stages_with_nan")
    if returned and stages and not bool(stages[-1][0]["converged"]):
        obs.violate("returned_without_convergence", "pipeflow returned although its last stage %s was not converged"
                    % stages[-1][0]["mode"], **desc)
    return stages


def run_history(case, obs):
    import pandapipes as pp
    from pandapipes.pf.pipeflow_setup import PipeflowNotConverged
    from pandapipes.idx_node import PINIT
    from pandapipes.idx_branch import MDOTINIT
    spec, bad, how, calls = make_history(case)
    try:
        net = netgen.build(spec)
        badnet = netgen.build(bad) if how != "none" else None
    except Exception:
        obs.count("hostile_spec_refused_at_creation")
        return
    # one net object carries the whole history: hostile parameters are written into it and restored
    tables = [t for t in netgen.ALL_TABLES if t in net]
    good_tables = {t: net[t].copy() for t in tables}
    had_success = False
    sol = None
    for ci, call in enumerate(calls):
        opts = dict(call["opts"])
        for t in tables:
            net[t] = (badnet[t] if (call["use_bad"] and badnet is not None) else good_tables[t]).copy()
        if opts["mode"] == "heat":
            if sol is None or call["use_bad"]:
                opts["mode"] = "sequential"
            else:
                opts["sol_vec"] = sol
        desc = {"call": ci, "options": {k: v for k, v in opts.items() if k != "sol_vec"}, "hostile": how if call["use_bad"] else "none"}
        del _TRACE[:]
        outcome = "ok"
        try:
            pp.pipeflow(net, **opts)
        except PipeflowNotConverged:
            outcome = "not_converged"
        except Exception as e:
            outcome = "error:" + type(e).__name__
            exc = e
        trace = list(_TRACE)
        obs.count("runs_mode_" + opts["mode"])
        if opts.get("nonlinear_method") == "automatic":
            obs.count("runs_automatic")
        stages = check_trace(obs, trace, outcome == "ok", opts, desc)
        if outcome == "ok":
            obs.count("returns_checked")
            if not bool(net.converged):
                obs.violate("returned_not_marked_converged", "pipeflow returned but net.converged is %r" % net.converged, **desc)
            # finite results: no inf anywhere; every junction fed by an in-service p grid has a finite pressure
            for k in list(net.keys()):
                if isinstance(k, str) and k.startswith("res_") and hasattr(net[k], "columns") and len(net[k]):
                    num = net[k].select_dtypes(include=[np.number]).values
                    if np.isinf(num).any():
                        obs.violate("infinite_result", "%s holds inf after a normal return" % k, **desc)
            if opts["mode"] != "heat":
                if "ext_grid" in net and len(net.ext_grid):
                    E = net.ext_grid
                    for idx in E.index:
                        if bool(E.at[idx, "in_service"]) and "p" in str(E.at[idx, "type"]) and bool(net.junction.at[E.at[idx, "junction"], "in_service"]):
                            obs.count("supplied_junction_finite_checks")
                            if not np.isfinite(net.res_junction.at[E.at[idx, "junction"], "p_bar"]):
                                obs.violate("supplied_result_not_finite", "junction of in-service grid %s has no finite pressure" % idx, **desc)
            # ---- the returned flows are as close to the solution as the run's own trace implies
            tol_m = float(opts.get("tol_m", 1e-5))
            if opts["mode"] == "hydraulics" and tol_m >= 1e-6 and desc["hostile"] == "none" and stages:
                hyd = [it for end, it in stages if end["mode"] == "hydraulics"][-1]
                em = [float(p["errors"]["mdot"]) for p in hyd]
                q = min(0.95, em[-1] / em[-2]) if len(em) >= 2 and em[-2] > 0 and em[-1] > 0 else 0.0
                bound = 10 * tol_m + 20 * em[-1] * q / (1 - q) + 1e-5
                refnet = netgen.build(spec if not call["use_bad"] else bad)
                phys = {k: v for k, v in opts.items() if k in ("friction_model", "use_numba", "mode")}
                try:
                    pp.pipeflow(refnet, iter=400, tol_p=1e-10, tol_m=1e-10, tol_res=1e-9, **phys)
                    worst, where = 0.0, None
                    for t in netgen.BRANCH_TABLES:
                        if t in net and "res_" + t in net and len(net[t]) and t in refnet:
                            a = net["res_" + t]["mdot_from_kg_per_s"].values.astype(float)
                            b = refnet["res_" + t]["mdot_from_kg_per_s"].values.astype(float)
                            d = np.nanmax(np.abs(a - b)) if len(a) and not np.all(np.isnan(a - b)) else 0.0
                            if d > worst:
                                worst, where = float(d), t
                    # a pump / compressor lifts forward flow and is by-passed in reverse: a net may have a solution on either side of
                    # that kink (see the listed C08 finding); two runs on different sides are both converged and not comparable
                    other_side = False
                    for t in ("pump", "compressor"):
                        if t in net and "res_" + t in net and len(net[t]) and t in refnet:
                            a = net["res_" + t]["mdot_from_kg_per_s"].values.astype(float)
                            b = refnet["res_" + t]["mdot_from_kg_per_s"].values.astype(float)
                            if np.any((a * b < 0) | ((np.abs(a) <= 1e-8) != (np.abs(b) <= 1e-8))):
                                other_side = True
                    if other_side:
                        obs.count("tight_reference_on_other_side_of_machine_law_not_comparable")
                        worst = 0.0
                    obs.count("returned_flows_vs_tight_solution_checks")
                    obs.maxi("max_dev_from_tight_solution_kg_per_s", worst)
                    if worst > bound:
                        obs.violate("returned_result_far_from_solution", "pipeflow returned (tol_m=%g, last mdot changes %s) but res_%s flows are %.3g kg/s "
                                    "away from the tightly converged solution (bound from the trace %.3g)" % (tol_m, em[-3:], where, worst, bound),
                                    deviation=worst, bound=bound, **desc)
                except PipeflowNotConverged:
                    obs.count("tight_reference_not_converged")
                except Exception:
                    obs.count("tight_reference_error")
            had_success = True
            if opts["mode"] in ("hydraulics", "sequential", "bidirectional"):
                sol = np.concatenate((net._pit["node"][:, PINIT], net._pit["branch"][:, MDOTINIT]))
        elif outcome == "not_converged":
            obs.count("failures_checked")
            if had_success:
                obs.count("failure_after_success_checked")
            if bool(net.converged):
                obs.violate("failed_run_marked_converged", "PipeflowNotConverged raised but net.converged is %r" % net.converged, **desc)
            left = tables_hold_numbers(net)
            if left:
                obs.violate("failed_run_leaves_results", "after PipeflowNotConverged these tables hold numbers: %s" % left, tables=left, **desc)
            if not stages:
                obs.count("failures_before_first_iteration")
                if had_success:
                    obs.count("failures_before_first_iteration_after_success")
            sol = None
        else:
            obs.count("outcome_" + outcome)
            name = outcome.split(":")[1]
            valid_input = desc["hostile"] in ("none", "overload", "tiny_pipe", "no_supply")
            if not valid_input:
                obs.count("invalid_parameter_outcome_" + name)   # NaN / zero parameters: outside the statement, shown only
            elif name in ("IndexError", "ZeroDivisionError", "FloatingPointError", "TypeError", "KeyError", "AttributeError", "ValueError"):
                obs.violate("crash_instead_of_not_converged", "pipeflow raised %s: %s" % (name, str(exc)[:200]), **desc)
            sol = None


def run_case(case, ctx):
    if case.get("kind") == "repo_suite":
        obs = Obs()
        n = run_suite_case(case, "C05", obs)
        rec = {"nontrivial": n > 0, "sample": {"repo_suite_part": case["part"], "pipeflow_calls_observed": n}, "evaluations": max(n, 1)}
        rec.update(obs.record())
        return rec
    obs = Obs()
    if case["kind"] == "driver":
        run_driver(case, obs)
        rec = {"nontrivial": obs.counters.get("driver_scripts", 0) > 0,
               "sample": {"driver": case, "scripts": obs.counters.get("driver_scripts", 0),
                          "symbol_alphabet": len(SYMBOLS)}}
    else:
        run_history(case, obs)
        n = obs.counters.get("nr_iterations_observed", 0)
        rec = {"nontrivial": n > 0}
        if n:
            spec, bad, how, calls = make_history(case)
            rec["sample"] = {"case": case, "net": netgen.spec_summary(spec), "hostile": how,
                             "calls": [dict(c["opts"], use_bad=c["use_bad"]) for c in calls], "newton_iterations": n}
    rec.update(obs.record())
    return rec
