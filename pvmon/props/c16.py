"""C16 - element creation keeps the net referentially intact, atomic and as documented."""
import copy
import inspect
import math
import re

import numpy as np

from pvmon.fingerprint import fingerprint, diff
from pvmon.monitors import Obs, mon_c01, mon_c02, mon_c03

MANIFEST = {
    "text": "Held (up to the listed known findings) on every observed call: each create_* function, called with seeded valid argument sets (optional arguments randomly omitted) on empty and populated nets of every sector, appends exactly the requested rows with the passed values, the documented defaults for omitted arguments, unique indices and the component's column dtypes, and leaves every other entry of the net bit-identical; called with one invalid argument at each position in turn (missing junction / pipe / standard type, duplicate index, wrong element type, inconsistent set-points, malformed geodata) it raises and the whole net fingerprint is unchanged; bulk creation equals a loop of single creations; creation from a standard type equals creation from that type's parameters; default-created elements run through pipeflow and satisfy C01-C03.",
    "note": "Documented defaults are parsed from the docstrings (':type x: ..., default V') and cross-checked with inspect.signature, looking through the deprecated_input wrapper.",
    "technique": "runtime monitoring: pre/post contracts (whole-net fingerprint snapshots) around every real create_* call with valid and one-invalid-argument inputs, plus bulk/single and std-type/parameter differential oracles",
}
RULE = ("16 single and 11 bulk create functions x sectors {all, gas, water, heat} x {empty, populated} nets x seeded valid argument sets "
        "with randomly omitted optionals, and for each function every invalid-argument kind at every reference position; non-trivial = "
        "a case with >= 1 successful and >= 1 refused call; distinct = case hash")
ASSUMPTIONS = ["a refused call is one that raises any exception"]
CONFIG = {"quick": {"shards": 4, "timeout_s": 600, "cases": 120},
          "thorough": {"shards": 16, "timeout_s": 3000, "cases": 4000}}
REQUIRED_COUNTERS = ["invalid_uncontrollable_behind_other_controller", "successful_creations_checked", "refused_creations_checked", "default_values_checked", "passed_values_checked",
                     "dtype_checks", "bulk_vs_single_checks", "bulk_argument_as_series", "bulk_argument_as_ndarray", "std_type_vs_parameters_checks", "pipeflow_on_default_elements",
                     "invalid_missing_junction", "invalid_duplicate_index", "invalid_unknown_std_type", "invalid_missing_pipe",
                     "invalid_setpoints", "invalid_geodata", "documented_defaults_parsed"]
SECTORS = ["all", "gas", "water", "heat"]


def unwrap(f):
    if getattr(f, "__name__", "") == "wrap" and f.__closure__:
        for c in f.__closure__:
            g = c.cell_contents
            if callable(g) and getattr(g, "__name__", "").startswith("create_"):
                return g
    return inspect.unwrap(f)


def documented_defaults(f):
    """{param: (signature default, documented default string or None)}"""
    g = unwrap(f)
    sig = inspect.signature(g)
    doc = g.__doc__ or ""
    out = {}
    for name, par in sig.parameters.items():
        if par.default is inspect._empty or par.kind in (par.VAR_KEYWORD, par.VAR_POSITIONAL):
            continue
        m = re.search(r":type %s:[^\n]*?default:? ([^\n,]+)" % re.escape(name), doc)
        out[name] = (par.default, m.group(1).strip().strip("\"'").rstrip(".") if m else None)
    return out


def same_value(a, b):
    if a is None or (isinstance(a, float) and math.isnan(a)):
        return b is None or (isinstance(b, (float, np.floating)) and math.isnan(b))
    try:
        if isinstance(a, (int, float, np.number)) and isinstance(b, (int, float, np.number)) and not isinstance(a, bool):
            return float(a) == float(b)
    except (TypeError, ValueError):
        pass
    if isinstance(a, (bool, np.bool_)) or isinstance(b, (bool, np.bool_)):
        return bool(a) == bool(b)
    return a == b


def doc_equals(docval, stored):
    if docval is None:
        return None
    if docval in ("auto",):
        return None
    if docval in ("None", "nan", "NaN"):
        return stored is None or (isinstance(stored, (float, np.floating)) and math.isnan(stored))
    if docval in ("True", "False"):
        return bool(stored) == (docval == "True")
    if docval == "np.inf":
        return stored == np.inf
    try:
        return float(docval.split()[0]) == float(stored)
    except (ValueError, TypeError):
        return str(stored) == docval


# --------------------------------------------------------------------------------------------
# argument generators: (required kwargs, optional kwargs)
# --------------------------------------------------------------------------------------------
def specs(rng, J, P, net=None):
    j = lambda: int(rng.choice(J))
    pipe_types = sorted(net.std_types["pipe"]) if net is not None else ["80_GGG"]

    def two():
        a, b = rng.choice(J, 2, replace=False)
        return int(a), int(b)
    f, t = two()
    hc = [dict(qext_w=5e3, controlled_mdot_kg_per_s=0.2), dict(controlled_mdot_kg_per_s=0.2, deltat_k=20.0),
          dict(controlled_mdot_kg_per_s=0.2, treturn_k=320.0), dict(qext_w=5e3, deltat_k=15.0), dict(qext_w=5e3, treturn_k=315.0)][int(rng.integers(5))]
    S = {
        "create_junction": ("junction", dict(pn_bar=float(rng.uniform(1, 9)), tfluid_k=float(rng.uniform(280, 360))),
                            dict(height_m=float(rng.uniform(0, 99)), name="jx", in_service=bool(rng.random() < 0.8), geodata=(1.5, 2.5))),
        "create_sink": ("sink", dict(junction=j(), mdot_kg_per_s=float(rng.uniform(0, 2))), dict(scaling=0.7, name="s", in_service=False)),
        "create_source": ("source", dict(junction=j(), mdot_kg_per_s=float(rng.uniform(0, 2))), dict(scaling=1.3, name="q", in_service=False)),
        "create_mass_storage": ("mass_storage", dict(junction=j(), mdot_kg_per_s=float(rng.uniform(-1, 1))),
                                dict(init_m_stored_kg=5.0, min_m_stored_kg=1.0, max_m_stored_kg=500.0, scaling=0.5, name="ms", in_service=False)),
        "create_ext_grid": ("ext_grid", dict(junction=j(), p_bar=float(rng.uniform(1, 9)), t_k=float(rng.uniform(280, 360))), dict(name="eg", in_service=False)),
        "create_heat_exchanger": ("heat_exchanger", dict(from_junction=f, to_junction=t, qext_w=float(rng.uniform(-1e4, 1e4)), inner_diameter_mm=80.0),
                                  dict(loss_coefficient=1.5, name="hx", in_service=False)),
        "create_pipe": ("pipe", dict(from_junction=f, to_junction=t, std_type=str(rng.choice(pipe_types)), length_km=0.3),
                        dict(loss_coefficient=0.5, sections=3, text_k=285.0, name="p", in_service=False, geodata=[(0, 0), (1, 1)],
                             k_mm=0.07, u_w_per_m2k=1.25)),
        "create_pipe_from_parameters": ("pipe", dict(from_junction=f, to_junction=t, length_km=0.25, inner_diameter_mm=90.0),
                                        dict(outer_diameter_mm=110.0, k_mm=0.05, loss_coefficient=0.4, sections=2, u_w_per_m2k=1.5, text_k=280.0,
                                             name="pp", in_service=False)),
        "create_valve": ("valve", dict(junction=f, element=t, et="ju", inner_diameter_mm=70.0), dict(opened=False, loss_coefficient=2.0, name="v")),
        "create_pump": ("pump", dict(from_junction=f, to_junction=t, std_type=str(rng.choice(["P1", "P2", "P3"]))), dict(name="pu", in_service=False)),
        "create_pump_from_parameters": ("pump", dict(from_junction=f, to_junction=t, new_std_type_name="mypump%d" % int(rng.integers(1e6)),
                                                     pressure_list=[6.1, 5.8, 4.0], flowrate_list=[0, 19, 83], reg_polynomial_degree=2),
                                        dict(name="pup", in_service=False)),
        "create_circ_pump_const_pressure": ("circ_pump_pressure", dict(return_junction=f, flow_junction=t, p_flow_bar=6.0, plift_bar=2.0),
                                            dict(t_flow_k=350.0, name="cpp", in_service=False)),
        "create_circ_pump_const_mass_flow": ("circ_pump_mass", dict(return_junction=f, flow_junction=t, p_flow_bar=6.0, mdot_flow_kg_per_s=0.8),
                                             dict(t_flow_k=350.0, name="cpm", in_service=False)),
        "create_compressor": ("compressor", dict(from_junction=f, to_junction=t, pressure_ratio=1.3), dict(name="c", in_service=False)),
        "create_pressure_control": ("press_control", dict(from_junction=f, to_junction=t, controlled_junction=t, controlled_p_bar=3.0),
                                    dict(control_active=False, loss_coefficient=1.0, name="pc", in_service=False)),
        "create_flow_control": ("flow_control", dict(from_junction=f, to_junction=t, controlled_mdot_kg_per_s=0.3),
                                dict(control_active=False, name="fc", in_service=False)),
        "create_heat_consumer": ("heat_consumer", dict(from_junction=f, to_junction=t, **hc), dict(name="hc", in_service=False)),
    }
    if P:
        p = int(rng.choice(P))
        S["create_valve_pi"] = ("valve", dict(junction=None, element=p, et="pi", inner_diameter_mm=60.0), dict(opened=False, loss_coefficient=1.0))
    return S


BULK = {"create_junction": "create_junctions", "create_sink": "create_sinks", "create_source": "create_sources", "create_ext_grid": "create_ext_grids",
        "create_pipe": "create_pipes", "create_pipe_from_parameters": "create_pipes_from_parameters", "create_valve": "create_valves",
        "create_pressure_control": "create_pressure_controls", "create_flow_control": "create_flow_controls",
        "create_heat_exchanger": "create_heat_exchangers", "create_heat_consumer": "create_heat_consumers"}
PLURAL = {"junction": "junctions", "from_junction": "from_junctions", "to_junction": "to_junctions", "element": "elements",
          "controlled_junction": "controlled_junctions"}
REFS = ("junction", "from_junction", "to_junction", "return_junction", "flow_junction", "controlled_junction")


def gen_cases(tier, seed):
    return [{"seed": seed, "i": i, "sector": SECTORS[i % 4], "populated": bool((i // 4) % 4 != 0)} for i in range(CONFIG[tier]["cases"])]


def base_net(case, rng):
    import pandapipes as pp
    from pandapipes.pandapipes_net import Sector
    fluid = {"all": "water", "gas": "lgas", "water": "water", "heat": "water"}[case["sector"]]
    net = pp.create_empty_network(fluid=fluid, sector=Sector(case["sector"]))
    J = [int(x) for x in pp.create_junctions(net, 6, 5.0, 300.0, index=[3, 7, 8, 12, 20, 21])]
    P = []
    if case["populated"]:
        P.append(int(pp.create_pipe_from_parameters(net, J[0], J[1], 0.2, 100.0, index=4)))
        P.append(int(pp.create_pipe_from_parameters(net, J[1], J[2], 0.2, 100.0, index=9)))
        pp.create_sink(net, J[2], 0.2)
        pp.create_ext_grid(net, J[0], 5.0, 300.0)
        pp.create_valve(net, J[2], J[3], "ju", 80.0)
    return net, J, P


def call(fn, net, kwargs):
    try:
        return fn(net, **kwargs), None
    except Exception as e:   # any refusal
        return None, e


def series_controllers(obs, rng):
    """j0 -[PC_B]- j1 = j2 -[PC_A]- j3 = j4: PC_A exists; PC_B naming j4 (behind PC_A) as controlled junction must not be created
    ("no other pressure control unit is inbetween"), PC_B naming j2 (reached over a pipe only) must be."""
    import pandapipes as pp
    net = pp.create_empty_network(fluid="water")
    labels = [int(x) for x in rng.permutation(5) + int(rng.choice([0, 10]))]
    j = [pp.create_junction(net, 5.0, 300.0, index=l) for l in labels]
    pp.create_ext_grid(net, j[0], 6.0, 300.0)
    pp.create_pipe_from_parameters(net, j[1], j[2], 0.1, 100.0)
    pp.create_pipe_from_parameters(net, j[3], j[4], 0.1, 100.0)
    pp.create_sink(net, j[4], 0.2)
    pp.create_pressure_control(net, j[2], j[3], j[3], 3.0)
    b4 = fingerprint(net, include_results=True)
    ridx, rexc = call(pp.create_pressure_control, net, dict(from_junction=j[0], to_junction=j[1], controlled_junction=j[4], controlled_p_bar=2.5))
    obs.count("refused_creations_checked")
    obs.count("invalid_uncontrollable_behind_other_controller")
    desc = {"function": "create_pressure_control", "junction_labels": labels}
    if len(net.press_control) != 1:
        obs.violate("uncontrollable_pressure_control_accepted", "create_pressure_control created a controller whose controlled junction lies behind "
                    "another pressure controller (returned %r)" % (ridx,), **desc)
        net.press_control.drop(net.press_control.index[1:], inplace=True)
    else:
        if rexc is None and ridx is None:
            obs.violate("pressure_control_returns_none", "create_pressure_control neither created a row nor raised for an "
                        "uncontrollable controlled junction (returned None)", **desc)
        ch = diff(b4, fingerprint(net, include_results=True))
        if ch:
            obs.violate("failed_create_changes_net", "refused create_pressure_control changed %s" % ch[:6], **desc)
    ridx, rexc = call(pp.create_pressure_control, net, dict(from_junction=j[0], to_junction=j[1], controlled_junction=j[2], controlled_p_bar=4.5))
    obs.count("valid_creations_checked")
    if rexc is not None or ridx is None or len(net.press_control) != 2:
        obs.violate("valid_remote_pressure_control_refused", "create_pressure_control refused a controlled junction reached over a pipe only (%r / %r)"
                    % (ridx, rexc), **desc)


def run_case(case, ctx):
    import pandapipes as pp
    rng = np.random.default_rng([case["seed"], case["i"], 16])
    obs = Obs()
    net, J, P = base_net(case, rng)
    S = specs(rng, J, P, net)
    ok_calls = refused = 0
    for fname, (table, req, opt) in S.items():
        real = "create_valve" if fname == "create_valve_pi" else fname
        fn = getattr(pp, real)
        if fname == "create_valve_pi":
            pj = net.pipe.loc[req["element"], ["from_junction", "to_junction"]].values
            req = dict(req, junction=int(pj[int(rng.integers(2))]))
        docs = documented_defaults(fn)
        obs.count("documented_defaults_parsed", sum(1 for v in docs.values() if v[1] is not None))
        kwargs = dict(req)
        for k, v in opt.items():
            if rng.random() < 0.5:
                kwargs[k] = v
        if rng.random() < 0.4:
            free = int(max(net[table].index.max() + 5, 50)) if table in net and len(net[table]) else 17
            kwargs["index"] = free
        # ---------------- an invalid call before the first valid one (the component table may not exist yet)
        if rng.random() < 0.35:
            first_ref = [r for r in REFS if r in kwargs]
            if first_ref:
                b0 = fingerprint(net, include_results=True)
                _, e0 = call(fn, net, dict(kwargs, **{first_ref[0]: 9999}))
                obs.count("invalid_before_first_valid")
                ch0 = diff(b0, fingerprint(net, include_results=True))
                if e0 is not None and ch0:
                    new_only = all(k == "component_list" or k not in b0 for k in ch0)
                    obs.violate("failed_create_adds_component_table" if new_only else "failed_create_changes_net",
                                "%s raised %s for a missing junction but changed %s" % (real, type(e0).__name__, ch0[:6]),
                                function=real, sector=case["sector"], populated=case["populated"])
        # ---------------- valid call
        before = fingerprint(net, include_results=True)
        nrows = len(net[table]) if table in net else 0
        old_index = list(net[table].index) if table in net else []
        idx, exc = call(fn, net, copy.deepcopy(kwargs))
        desc = {"function": real, "kwargs": {k: (v if not isinstance(v, (list, tuple)) else list(v)) for k, v in kwargs.items()},
                "sector": case["sector"], "populated": case["populated"]}
        if exc is not None:
            obs.violate("valid_call_refused", "%s refused a valid call: %s: %s" % (real, type(exc).__name__, str(exc)[:150]), **desc)
            continue
        if idx is None:
            obs.violate("create_returns_none", "%s returned None instead of an index (no row was created: %s)"
                        % (real, len(net[table]) == nrows), **desc)
            continue
        ok_calls += 1
        obs.count("successful_creations_checked")
        tab = net[table]
        if len(tab) != nrows + 1 or idx not in tab.index or not tab.index.is_unique or list(tab.index[:nrows]) != old_index:
            obs.violate("rows_not_exactly_appended", "%s: table %s went from %d to %d rows (returned index %r)" % (real, table, nrows, len(tab), idx), **desc)
            continue
        if "index" in kwargs and idx != kwargs["index"]:
            obs.violate("index_not_honoured", "%s: requested index %r, got %r" % (real, kwargs["index"], idx), **desc)
        row = tab.loc[idx]
        for k, v in kwargs.items():
            if k in tab.columns:
                obs.count("passed_values_checked")
                if not same_value(v, row[k]):
                    obs.violate("passed_value_not_stored", "%s: %s=%r stored as %r" % (real, k, v, row[k]), **desc)
        for k, (sigdef, docdef) in docs.items():
            if k in kwargs or k not in tab.columns:
                continue
            obs.count("default_values_checked")
            stored = row[k]
            if k == "init_m_stored_kg" and ("min_m_stored_kg" in kwargs or "max_m_stored_kg" in kwargs):
                continue     # documented: the initial content is limited to [min, max]
            if not same_value(sigdef, stored) and not (k == "type" and sigdef == "auto"):
                obs.violate("signature_default_not_stored", "%s: omitted %s stored as %r, signature default %r" % (real, k, stored, sigdef), **desc)
            de = doc_equals(docdef, stored)
            if de is False:
                tag = "documented_default_differs_label_column" if k in ("type", "name") else "documented_default_differs"
                obs.violate(tag, "%s: omitted %s stored as %r, documented default %s" % (real, k, stored, docdef), parameter=k, **desc)
        # dtypes as declared by the component
        comp = [c for c in net.component_list if c.table_name() == table][0]
        for col, dt in comp.get_component_input():
            if col in tab.columns:
                obs.count("dtype_checks")
                if np.dtype(dt) != tab[col].dtype:
                    obs.violate("column_dtype_changed", "%s: column %s.%s has dtype %s, component declares %s" % (real, table, col, tab[col].dtype, np.dtype(dt)), **desc)
        after = fingerprint(net, include_results=True)
        allowed = {table, "component_list", table + "_geodata"} | {k for k in after if k.startswith(table + ".") or k.startswith(table + "_geodata")}
        if real == "create_pump_from_parameters":
            allowed.add("std_types")      # the only create function that is documented to add a standard type
        changed = [k for k in diff(before, after) if k not in allowed]
        if changed:
            obs.violate("creation_touches_other_entries", "%s changed entries %s" % (real, changed), **desc)
        # ---------------- invalid variants: one invalid argument at a time
        variants = []
        for r in REFS:
            if r in kwargs:
                variants.append(("invalid_missing_junction", dict(kwargs, **{r: 9999})))
        variants.append(("invalid_duplicate_index", dict(kwargs, index=idx)))
        if "std_type" in kwargs:
            variants.append(("invalid_unknown_std_type", dict(kwargs, std_type="no_such_type")))
        if real == "create_valve":
            variants.append(("invalid_element_type", dict(kwargs, et="xx")))
            variants.append(("invalid_missing_pipe", dict(kwargs, et="pi", element=9999)))
            if kwargs["et"] == "ju":
                variants.append(("invalid_missing_junction", dict(kwargs, element=9999)))
        if real == "create_heat_consumer":
            variants.append(("invalid_setpoints", dict(req, qext_w=1e3, controlled_mdot_kg_per_s=None, deltat_k=None, treturn_k=None)))
            variants.append(("invalid_setpoints", dict(req, qext_w=1e3, controlled_mdot_kg_per_s=0.1, deltat_k=10.0)))
        if real == "create_ext_grid":
            variants.append(("invalid_setpoints", {k: v for k, v in kwargs.items() if k not in ("p_bar", "t_k")}))
        if real == "create_junction":
            variants.append(("invalid_geodata", dict(kwargs, geodata=(1, 2, 3))))
        if real == "create_pressure_control":
            variants.append(("invalid_missing_junction", dict(kwargs, controlled_junction=9999, check_controllability=False)))
            far = [x for x in J if x not in (kwargs["from_junction"], kwargs["to_junction"])][-1]
            variants.append(("invalid_uncontrollable", dict(kwargs, controlled_junction=far)))
        for kind, bad in variants:
            bad = {k: v for k, v in bad.items() if not (k == "index" and kind != "invalid_duplicate_index")}
            b4 = fingerprint(net, include_results=True)
            ridx, rexc = call(fn, net, copy.deepcopy(bad))
            obs.count(kind)
            obs.count("refused_creations_checked")
            bdesc = dict(desc, kwargs={k: (v if not isinstance(v, (list, tuple)) else list(v)) for k, v in bad.items()}, invalid=kind)
            if rexc is None and kind == "invalid_uncontrollable":
                if ridx is None:
                    obs.violate("pressure_control_returns_none", "create_pressure_control neither created a row nor raised for an "
                                "uncontrollable controlled junction (returned None)", **bdesc)
                elif ridx in net[table].index:
                    net[table].drop(ridx, inplace=True)   # the junction happened to be reachable: a valid call
                continue
            if rexc is None:
                obs.violate("invalid_argument_accepted_" + kind.replace("invalid_", ""), "%s accepted %s (returned %r)" % (real, kind, ridx), **bdesc)
                if ridx is not None and ridx in net[table].index:
                    net[table].drop(ridx, inplace=True)   # keep the harness net consistent
                continue
            refused += 1
            ch = diff(b4, fingerprint(net, include_results=True))
            if ch:
                tag = "failed_create_adds_component_table" if all(k in ("component_list",) or k.split(".")[0] not in [x.split(".")[0] for x in b4] for k in ch) \
                    else ("create_junction_geodata_not_atomic" if kind == "invalid_geodata" else "failed_create_changes_net")
                obs.violate(tag, "%s raised %s for %s but changed %s" % (real, type(rexc).__name__, kind, ch[:6]), **bdesc)
                # repair the harness net so later checks are independent
                for k in list(net.keys()):
                    pass
                if kind == "invalid_geodata" and len(net.junction) and net.junction.index[-1] not in J:
                    last = net.junction.index[-1]
                    if fingerprint(net)["junction"] != b4["junction"] or len(net.junction) != int(len(J) + sum(1 for _ in [0])):
                        net.junction.drop(last, inplace=True)
                        if "junction_geodata" in net and last in net.junction_geodata.index:
                            net.junction_geodata.drop(last, inplace=True)
    # ---------------- a controlled junction that lies behind another pressure controller is documented to be refused
    series_controllers(obs, rng)
    # ---------------- bulk == loop of singles
    for single, bulk in BULK.items():
        if single not in S:
            continue
        table, req, opt = S[single]
        if single == "create_pressure_control" and not case["populated"]:
            pass
        k = int(rng.integers(2, 4))
        a, J2, _ = base_net(case, rng)
        b, _, _ = base_net(case, rng)
        rows = []
        for _ in range(k):
            t, r, o = specs(rng, J2, [], a)[single]
            rows.append(dict(r, **{kk: vv for kk, vv in o.items() if kk not in ("geodata", "name")}))
        keys = set(rows[0])
        rows = [{kk: r[kk] for kk in keys if kk in r} for r in rows]
        if single == "create_heat_consumer":
            rows = [dict(rows[0]) for _ in rows]
        try:
            for r in rows:
                getattr(pp, single)(a, **r)
            bargs = {}
            for kk in keys:
                vals = [r[kk] for r in rows]
                bargs[PLURAL.get(kk, kk)] = vals if kk in PLURAL or len(set(map(repr, vals))) > 1 else vals[0]
            # per-element arguments arrive in any iterable container: list, ndarray, or a Series whose (ascending) labels may or
            # may not coincide with the labels of the new rows - values are taken by position
            import pandas as pd
            for kk in list(bargs):
                if isinstance(bargs[kk], list) and len(bargs[kk]) == k and kk != "geodata":
                    form = int(rng.integers(4))
                    if form == 1 and not any(isinstance(v, (str, type(None))) for v in bargs[kk]):
                        bargs[kk] = np.array(bargs[kk])
                        obs.count("bulk_argument_as_ndarray")
                    elif form >= 2:
                        start = 0 if form == 2 else int(rng.integers(0, 4))
                        bargs[kk] = pd.Series(bargs[kk], index=pd.RangeIndex(start, start + k))
                        obs.count("bulk_argument_as_series")
            if single == "create_junction":
                bargs["nr_junctions"] = k
            if single in ("create_pipe",):
                bargs["std_type"] = rows[0]["std_type"]
                for r in rows:
                    r["std_type"] = rows[0]["std_type"]
                a, _, _ = base_net(case, rng)
                for r in rows:
                    getattr(pp, single)(a, **r)
            if single == "create_valve":
                bargs["et"] = "ju"
            getattr(pp, bulk)(b, **bargs)
        except Exception as e:
            obs.violate("bulk_or_single_refused", "%s / %s refused equivalent valid arguments: %s: %s" % (single, bulk, type(e).__name__, str(e)[:120]),
                        function=bulk, rows=rows)
            continue
        obs.count("bulk_vs_single_checks")
        ta, tb = a[table], b[table]
        cols = []
        if list(ta.columns) != list(tb.columns) or list(ta.index) != list(tb.index):
            cols = ["<columns or index>"]
        else:
            for c in ta.columns:
                missing = lambda z: z is None or (isinstance(z, str) and z == "") or (isinstance(z, float) and math.isnan(z))
                if ta[c].dtype == object and all(missing(x) and missing(y) for x, y in zip(ta[c].values[-k:], tb[c].values[-k:])) \
                        and all(same_value(x, y) for x, y in zip(ta[c].values[:-k], tb[c].values[:-k])):
                    continue     # nothing given for a label column: None / NaN / '' all mean 'not set'
                if str(ta[c].dtype) != str(tb[c].dtype) or not all(same_value(x, y) for x, y in zip(ta[c].values, tb[c].values)):
                    cols.append(c)
        if cols:
            detail = {c: (list(ta[c].values[-k:]), list(tb[c].values[-k:]), str(ta[c].dtype), str(tb[c].dtype))
                      for c in cols if c in ta.columns and c in tb.columns}
            tag = "create_pipe_text_k_default_zero" if (single == "create_pipe" and cols == ["text_k"]) else "bulk_differs_from_singles"
            obs.violate(tag, "%s vs %d x %s: columns %s differ %s" % (bulk, k, single, cols, {c: v for c, v in detail.items()}),
                        function=bulk, columns=cols)
    # ---------------- std type == parameters
    import pandas as pd
    import os
    csv = pd.read_csv(os.path.join(os.path.dirname(pp.__file__), "std_types", "library", "Pipe.csv"), sep=";", index_col=0)
    a, J2, _ = base_net(case, rng)
    st = str(rng.choice(sorted(a.std_types["pipe"])))
    pa = pp.create_pipe(a, J2[0], J2[1], st, 0.4, text_k=290.0)
    row = csv.loc[st]
    extra = {} if math.isnan(float(row["u_w_per_m2k"])) else {"u_w_per_m2k": float(row["u_w_per_m2k"])}
    pb = pp.create_pipe_from_parameters(a, J2[0], J2[1], 0.4, float(row["inner_diameter_mm"]), outer_diameter_mm=float(row["outer_diameter_mm"]),
                                        k_mm=float(row["k_mm"]), text_k=290.0, **extra)
    obs.count("std_type_vs_parameters_checks")
    for col in a.pipe.columns:
        if col in ("std_type", "name") or (col == "u_w_per_m2k" and not extra):
            continue
        if not same_value(a.pipe.at[pa, col], a.pipe.at[pb, col]):
            obs.violate("std_type_differs_from_parameters", "pipe from std type %s: %s=%r, from that type's parameters %r"
                        % (st, col, a.pipe.at[pa, col], a.pipe.at[pb, col]), std_type=st, column=col)
    # ---------------- pipeflow on default-created elements
    if case["sector"] in ("all", "water", "gas"):
        n = pp.create_empty_network(fluid="lgas" if case["sector"] == "gas" else "water")
        jj = pp.create_junctions(n, 4, 1.0, 293.15)
        pp.create_ext_grid(n, jj[0], 2.0 if case["sector"] == "gas" else 5.0, 293.15)
        pp.create_pipe(n, jj[0], jj[1], "200_ST<16", 0.3)
        pp.create_pipe_from_parameters(n, jj[1], jj[2], 0.2, 150.0)
        pp.create_valve(n, jj[2], jj[3], "ju", 100.0)
        pp.create_sink(n, jj[3], 0.01 if case["sector"] == "gas" else 0.5)
        pp.create_source(n, jj[2], 0.001)
        pp.create_mass_storage(n, jj[1], 0.001)
        opts = {"iter": 100}
        try:
            pp.pipeflow(n, **opts)
            obs.count("pipeflow_on_default_elements")
            mon_c01(n, obs)
            mon_c02(n, obs, opts)
            mon_c03(n, obs, opts)
        except Exception as e:
            obs.violate("pipeflow_fails_on_default_elements", "pipeflow on default-created elements raised %s: %s" % (type(e).__name__, str(e)[:120]))
    else:
        obs.count("pipeflow_on_default_elements", 0)
    rec = {"nontrivial": ok_calls >= 1 and refused >= 1,
           "sample": {"case": case, "functions_called": sorted(S), "successful": ok_calls, "refused": refused}}
    rec.update(obs.record())
    return rec
