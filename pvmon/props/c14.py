"""C14 - options resolve by the documented precedence: call > user options > defaults."""
import copy
import itertools
import re

from pvmon.monitors import Obs

MANIFEST = {
    "text": "Held on the complete enumeration: for every option key x presence in {user options, call} with distinct sentinel values, for all combinations of iter with the three stage limits in both layers, for the deprecated mode value and for unknown keys, the options in force inside the real init_options / pipeflow equal a 15-line reference merge of the documented rules; stored defaults and user options are deep-equal before and after; documented defaults (parsed from the docstring) equal the effective ones; the resolved tolerances and budgets are the ones the Newton trace (hook H2) reports as in force.",
    "note": "Option values are not validated by pandapipes, so sentinels only need the right type; the docstring is the documentation of the defaults.",
    "technique": "runtime monitoring: exhaustive configuration enumeration through the real option resolver and solver, compared with a reference precedence model and with hook-observed tolerances",
}
RULE = ("exhaustive: every key of the stored defaults + iter + an unknown key x {absent, user, call, both} with distinct sentinels; all "
        "2^8 presence patterns of {iter, max_iter_hyd, max_iter_therm, max_iter_bidirect} x {user, call}; deprecated mode 'all' in each "
        "layer; a seeded sample of full random layer assignments; each resolved by the real init_options and a subset also by a real "
        "pipeflow whose Newton trace must show the resolved tolerances/budgets; non-trivial = a resolution with >= 1 key present in a layer; "
        "distinct = (user layer, call layer) pair")
ASSUMPTIONS = ["numba is installed in this environment (the fallback coupling is checked by simulating its absence through the module flag)"]
CONFIG = {"quick": {"shards": 4, "timeout_s": 600, "random_layers": 300, "pipeflows": 40},
          "thorough": {"shards": 8, "timeout_s": 3000, "random_layers": 20000, "pipeflows": 600}}
REQUIRED_COUNTERS = ["resolutions_checked", "resolutions_key_in_user_only", "resolutions_key_in_call_only", "resolutions_key_in_both",
                     "newton_stage_checks_hydraulics", "newton_stage_checks_heat", "newton_stage_checks_bidirectional", "resolutions_iter_patterns", "resolutions_deprecated_mode", "resolutions_unknown_key", "purity_checks",
                     "documented_defaults_checked", "pipeflow_effect_checks", "coupling_reuse_internal_data", "coupling_numba_fallback"]
EXHAUSTIVE = {"quick": True, "thorough": True}

_TRACE = []


def worker_init(ctx):
    import pandapipes._verif as v
    v.register(lambda ev, p: _TRACE.append((ev, {k: x for k, x in p.items() if k != "net"})))


def sentinel(key, default, which):
    """A value of the right type that differs from the default and between layers."""
    k = {"user": 1, "call": 2}[which]
    if isinstance(default, bool):
        return (not default) if which == "user" else default if key != "use_numba" else False
    if key == "friction_model":
        return ["colebrook", "swamee-jain"][k - 1]
    if key == "nonlinear_method":
        return ["automatic", "constant"][k - 1]
    if key == "mode":
        return ["sequential", "bidirectional"][k - 1]
    if isinstance(default, int) and not isinstance(default, bool) and key != "alpha":
        return default + 10 * k + 1
    if isinstance(default, float) or key == "alpha":
        return float(default) * (0.5 if which == "user" else 0.25) if default else 0.1 * k
    if default is None:
        return 60.0 * k
    return "sentinel_%s" % which


def reference(defaults, user, call, fluid_name, numba_installed=True):
    """Reference merge written from the documented rules."""
    user, call = dict(user), dict(call)
    for layer in (user, call):
        if layer.get("iter") is not None:
            for stage in ("hyd", "therm", "bidirect"):
                layer.setdefault("max_iter_" + stage, layer["iter"])
    opts = dict(defaults)
    opts.update(user)
    opts.update(call)
    for k in ("interactive_plotting", "t_start"):
        opts.pop(k, None)
    if not opts["only_update_hydraulic_matrix"]:
        opts["reuse_internal_data"] = False
    if not numba_installed:
        opts["use_numba"] = False
    opts["fluid"] = fluid_name
    if opts["mode"] == "all":
        opts["mode"] = "sequential"
    return opts


def gen_cases(tier, seed):
    cfg = CONFIG[tier]
    out = [{"kind": "keys"}, {"kind": "iter"}, {"kind": "doc"}]
    per = 100
    for b in range(0, cfg["random_layers"], per):
        out.append({"kind": "random", "seed": seed, "start": b, "n": min(per, cfg["random_layers"] - b)})
    for b in range(0, cfg["pipeflows"], 10):
        out.append({"kind": "pipeflow", "seed": seed, "start": b, "n": 10})
    return out


def small_net():
    import pandapipes as pp
    net = pp.create_empty_network(fluid="water")
    j = pp.create_junctions(net, 3, 1.0, 300.0)
    pp.create_ext_grid(net, j[0], 3.0, 320.0)
    pp.create_pipe_from_parameters(net, j[0], j[1], 0.2, 100.0, u_w_per_m2k=2.0)
    pp.create_pipe_from_parameters(net, j[1], j[2], 0.2, 80.0, u_w_per_m2k=2.0)
    pp.create_sink(net, j[2], 0.4)
    return net


def resolve_and_check(net, user, call, obs, label, numba_installed=True):
    import pandapipes as pp
    from pandapipes.pf import pipeflow_setup as ps
    pp.set_user_pf_options(net, reset=True, **user)
    stored_user = copy.deepcopy(dict(net.user_pf_options))
    stored_def = copy.deepcopy(ps.default_options)
    call_copy = copy.deepcopy(call)
    ps.init_options(net, **call)
    got = dict(net["_options"])
    want = reference(stored_def, stored_user, call_copy, net.fluid.name, numba_installed)
    obs.count("resolutions_checked")
    if got != want:
        keys = sorted(k for k in set(got) | set(want) if got.get(k, "<absent>") != want.get(k, "<absent>"))
        obs.violate("option_precedence", "%s: options in force differ from the reference merge for %s: got %s, expected %s"
                    % (label, keys, {k: got.get(k, "<absent>") for k in keys}, {k: want.get(k, "<absent>") for k in keys}),
                    user=user, call=call, keys=keys)
    obs.count("purity_checks")
    if dict(net.user_pf_options) != stored_user or ps.default_options != stored_def or call != call_copy:
        obs.violate("option_resolution_mutates_layers", "%s: stored defaults / user options / call kwargs changed while resolving" % label,
                    user=user, call=call)
    return got


def run_case(case, ctx):
    import pandapipes as pp
    from pandapipes.pf import pipeflow_setup as ps
    import numpy as np
    obs = Obs()
    net = small_net()
    defaults = copy.deepcopy(ps.default_options)
    keys = list(defaults) + ["iter", "my_unknown_option", "interactive_plotting", "t_start"]
    sample = None
    if case["kind"] == "keys":
        for key in keys:
            d = defaults.get(key, 7 if key == "iter" else "x")
            for in_user, in_call in itertools.product([False, True], repeat=2):
                user = {key: sentinel(key, d, "user")} if in_user else {}
                call = {key: sentinel(key, d, "call")} if in_call else {}
                resolve_and_check(net, user, call, obs, "key %s user=%s call=%s" % (key, in_user, in_call))
                if in_user and in_call:
                    obs.count("resolutions_key_in_both")
                elif in_user:
                    obs.count("resolutions_key_in_user_only")
                elif in_call:
                    obs.count("resolutions_key_in_call_only")
                if key == "my_unknown_option" and (in_user or in_call):
                    obs.count("resolutions_unknown_key")
        for layer in ("user", "call", "both"):
            user = {"mode": "all"} if layer in ("user", "both") else {}
            call = {"mode": "all"} if layer in ("call", "both") else {}
            resolve_and_check(net, user, call, obs, "deprecated mode in %s" % layer)
            obs.count("resolutions_deprecated_mode")
        # couplings
        for upd, reuse in itertools.product([False, True], repeat=2):
            for where in ("user", "call"):
                layer = {"only_update_hydraulic_matrix": upd, "reuse_internal_data": reuse}
                got = resolve_and_check(net, layer if where == "user" else {}, layer if where == "call" else {}, obs, "coupling %s" % layer)
                obs.count("coupling_reuse_internal_data")
                if got["reuse_internal_data"] != (upd and reuse):
                    obs.violate("coupling_reuse_internal_data", "reuse_internal_data=%s in force with only_update_hydraulic_matrix=%s"
                                % (got["reuse_internal_data"], upd))
        flag = ps.numba_installed
        try:
            ps.numba_installed = False
            for val in (True, False):
                got = resolve_and_check(net, {}, {"use_numba": val}, obs, "numba fallback", numba_installed=False)
                obs.count("coupling_numba_fallback")
        finally:
            ps.numba_installed = flag
        sample = {"keys": keys, "presence_patterns": ["absent", "user", "call", "both"]}
    elif case["kind"] == "iter":
        names = ["iter", "max_iter_hyd", "max_iter_therm", "max_iter_bidirect"]
        for pu in itertools.product([False, True], repeat=4):
            for pc in itertools.product([False, True], repeat=4):
                user = {n: 20 + i for i, (n, p) in enumerate(zip(names, pu)) if p}
                call = {n: 40 + i for i, (n, p) in enumerate(zip(names, pc)) if p}
                resolve_and_check(net, user, call, obs, "iter pattern user=%s call=%s" % (pu, pc))
                obs.count("resolutions_iter_patterns")
        sample = {"iter_patterns": 256, "layers": ["user", "call"]}
    elif case["kind"] == "doc":
        doc = ps.init_options.__doc__
        found = re.findall(r"\*\*(\w+)\*\* \((\w+)\): ([^\s]+) - ", doc)
        for name, typ, val in found:
            if name not in defaults:
                continue
            obs.count("documented_defaults_checked")
            v = val.strip('"')
            eff = defaults[name]
            try:
                same = (float(v) == float(eff)) if typ in ("int", "float") else (str(eff) == v)
            except ValueError:
                same = str(eff) == v
            if not same:
                obs.violate("docstring_defaults_differ", "option %s: documented default %s, effective default %r" % (name, val, eff),
                            option=name, documented=val, effective=eff)
        sample = {"documented_defaults": [list(f) for f in found[:6]]}
    elif case["kind"] == "random":
        rng = np.random.default_rng([case["seed"], case["start"], 14])
        for i in range(case["n"]):
            user, call = {}, {}
            for key in keys:
                d = defaults.get(key, 7 if key == "iter" else "x")
                r = rng.random()
                if r < 0.2:
                    user[key] = sentinel(key, d, "user")
                if 0.1 < r < 0.3 or r > 0.9:
                    call[key] = sentinel(key, d, "call")
            resolve_and_check(net, user, call, obs, "random layers %d" % (case["start"] + i))
        sample = {"random_layers": case["n"], "example_user": user, "example_call": call}
    else:   # real pipeflows: the resolved tolerances / budgets must be the ones in force in the Newton loop
        rng = np.random.default_rng([case["seed"], case["start"], 15])
        for i in range(case["n"]):
            user, call = {}, {}
            for key, vals in (("tol_m", [1e-6, 1e-7]), ("tol_p", [1e-6, 1e-8]), ("tol_res", [1e-4, 1e-6]), ("max_iter_hyd", [30, 40]),
                              ("iter", [50, 60]), ("nonlinear_method", ["automatic", "constant"]), ("friction_model", ["colebrook", "swamee-jain"]),
                              ("mode", ["sequential", ["hydraulics", "bidirectional"][i % 2]]), ("tol_T", [1e-5, 1e-6]), ("max_iter_therm", [25, 35]),
                              ("max_iter_bidirect", [22, 33])):
                r = rng.random()
                if r < 0.35:
                    user[key] = vals[0]
                if 0.2 < r < 0.5 or r > 0.85:
                    call[key] = vals[1]
            pp.set_user_pf_options(net, reset=True, **user)
            want = reference(defaults, dict(net.user_pf_options), call, net.fluid.name)
            del _TRACE[:]
            try:
                pp.pipeflow(net, **call)
            except Exception as e:
                obs.count("pipeflow_raised_" + type(e).__name__)
            got = {k: v for k, v in dict(net["_options"]).items()}
            obs.count("pipeflow_effect_checks")
            keys_diff = sorted(k for k in want if got.get(k) != want[k] and k != "alpha")
            if keys_diff:
                obs.violate("option_precedence", "pipeflow: options in force differ for %s" % keys_diff, user=user, call=call)
            # every stage of the Newton loop runs under its own resolved budget and tolerances
            stage = {"hydraulics": ("max_iter_hyd", {"mdot": "tol_m", "p": "tol_p", "mdotslack": "tol_m"}),
                     "heat": ("max_iter_therm", {"Tout": "tol_T", "T": "tol_T"}),
                     "bidirectional": ("max_iter_bidirect", {"mdot": "tol_m", "p": "tol_p", "TOUT": "tol_T", "T": "tol_T"})}
            seen = set()
            for ev, p in _TRACE:
                if ev == "nr_iter" and p["mode"] in stage and p["mode"] not in seen:
                    seen.add(p["mode"])
                    budget, tolmap = stage[p["mode"]]
                    obs.count("newton_stage_checks_" + p["mode"])
                    bad = [k for k, o in tolmap.items() if k in p["tols"] and float(p["tols"][k]) != want[o]]
                    if bad or float(p["tol_res"]) != want["tol_res"] or int(p["max_iter"]) != want[budget] or \
                            p["nonlinear_method"] != want["nonlinear_method"]:
                        obs.violate("newton_loop_uses_other_options", "Newton loop (%s stage) ran with tols %s / tol_res %s / budget %s / %s, resolved "
                                    "options say %s, tol_res %s, %s=%s, %s" % (p["mode"], p["tols"], p["tol_res"], p["max_iter"], p["nonlinear_method"],
                                                                             {o: want[o] for o in set(tolmap.values())}, want["tol_res"], budget, want[budget],
                                                                             want["nonlinear_method"]), user=user, call=call)
        sample = {"pipeflows": case["n"], "example_user": user, "example_call": call}
    rec = {"nontrivial": obs.counters.get("resolutions_checked", 0) + obs.counters.get("documented_defaults_checked", 0)
           + obs.counters.get("pipeflow_effect_checks", 0) > 0, "sample": sample,
           "evaluations": max(1, obs.counters.get("resolutions_checked", 0) + obs.counters.get("pipeflow_effect_checks", 0))}
    rec.update(obs.record())
    return rec
