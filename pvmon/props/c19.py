"""C19 - fluid and standard-type libraries return what their data and documentation say."""
import math
import os

import numpy as np

from pvmon.monitors import Obs

MANIFEST = {
    "text": "Held on everything observed: every library fluid reproduces its data files (re-read by the oracle) at the tabulated points, is linear between and beyond them, returns outputs shaped like the query (scalar / array / Series), has a compressibility slope equal to the stored derivative; integrals of every property class are antisymmetric, additive and have a mean inside the property's range; mixture rules conserve mass, molar and mass forms are inverse and results stay within component bounds; every library and user pump type lifts >= 0, zero for reverse flow, by its regression polynomial otherwise, identically for scalar and array queries; every standard pipe type reaches the created pipe row unchanged.",
    "note": "The oracle re-reads the data files of /repo/src/pandapipes/properties and std_types/library itself; queries are seeded random values inside and outside the tabulated ranges.",
    "technique": "runtime monitoring: data-file-derived reference oracle and algebraic laws evaluated on the return values of the real library functions",
}
RULE = ("all 8 library fluids x {density, viscosity, heat capacity, compressibility, molar mass} x seeded queries (tabulated points, "
        "midpoints, 10 % - 300 % of the range; scalar, ndarray, Series, list); property classes InterExtra / Constant / Linear / "
        "Polynominal / Sutherland built by the user API with random parameters; random 2-5 component mixtures; 3 library pumps + random "
        "user pumps x volume flows of either sign; all standard pipe types; non-trivial = a batch that judged >= 10 return values; "
        "distinct = batch hash")
ASSUMPTIONS = ["numpy interpolation on the oracle side"]
CONFIG = {"quick": {"shards": 4, "timeout_s": 600, "batches": 60},
          "thorough": {"shards": 16, "timeout_s": 3000, "batches": 3000}}
REQUIRED_COUNTERS = ["tabulated_points_checked", "interpolation_checked", "extrapolation_checked", "shape_checks", "compressibility_slope_checks",
                     "integral_antisymmetry_checks", "integral_additivity_checks", "integral_mean_checks", "integral_quadrature_checks", "mixture_checks",
                     "pump_scalar_checks", "pump_array_checks", "pump_reverse_flow_checks", "std_type_rows_checked", "std_type_rows_after_individual_override",
                     "property_class_interextra", "property_class_linear", "property_class_constant", "property_class_polynominal"]
FLUIDS = ["water", "air", "lgas", "hgas", "hydrogen", "methane", "biomethane_pure", "biomethane_treated"]


def gen_cases(tier, seed):
    out = [{"kind": "library", "fluid": f, "seed": seed} for f in FLUIDS]
    out += [{"kind": "stdtypes", "seed": seed}]
    out += [{"kind": "batch", "seed": seed, "i": i} for i in range(CONFIG[tier]["batches"])]
    return out


def ref_interp(x, y, q):
    """Linear interpolation with linear extrapolation from the end segments."""
    q = np.asarray(q, dtype=float)
    out = np.interp(q, x, y)
    lo, hi = q < x[0], q > x[-1]
    out = np.where(lo, y[0] + (q - x[0]) * (y[1] - y[0]) / (x[1] - x[0]), out)
    out = np.where(hi, y[-1] + (q - x[-1]) * (y[-1] - y[-2]) / (x[-1] - x[-2]), out)
    return out


def close(a, b, rtol=1e-10, atol=1e-12):
    a, b = np.asarray(a, float), np.asarray(b, float)
    return a.shape == b.shape and bool(np.all(np.abs(a - b) <= atol + rtol * np.maximum(np.abs(a), np.abs(b))))


def check_shapes(obs, fn, label, rng, lo, hi):
    import pandas as pd
    q = rng.uniform(lo, hi, 5)
    for kind, arg, want_shape in (("scalar", float(q[0]), ()), ("ndarray", q, (5,)), ("series", pd.Series(q), (5,)), ("len1", q[:1], (1,))):
        obs.count("shape_checks")
        try:
            r = fn(arg)
        except Exception as e:
            obs.violate("query_type_rejected", "%s raised %s for a %s query" % (label, type(e).__name__, kind), label=label, kind=kind)
            continue
        if np.shape(r) != want_shape:
            obs.violate("output_shape", "%s returned shape %s for a %s query" % (label, np.shape(r), kind), label=label, kind=kind)
        elif not close(np.asarray(r, float).ravel(), np.asarray(fn(q) if kind != "len1" else fn(q[:1]), float).ravel()[:max(1, np.size(r))] if kind != "scalar" else np.asarray(fn(q), float).ravel()[:1]):
            obs.violate("scalar_vs_array_value", "%s gives different values for %s and array queries" % (label, kind), label=label)


def integral_laws(obs, prop, label, rng, lo, hi, value_fn, exact_additive=True, knots=None):
    import pandas as pd
    for _ in range(6):
        a, b, c = sorted(rng.uniform(lo, hi, 3))
        for args in ((a, c), (np.array([a, b]), np.array([b, c])), (pd.Series([a, a]), pd.Series([b, c]))):
            try:
                up, low = args[1], args[0]
                i1 = np.asarray(prop.get_at_integral_value(up, low), float)
                i2 = np.asarray(prop.get_at_integral_value(low, up), float)
            except Exception as e:
                obs.violate("integral_raises", "%s.get_at_integral_value raised %s: %s for %s limits"
                            % (label, type(e).__name__, str(e)[:80], type(args[0]).__name__), label=label)
                continue
            obs.count("integral_antisymmetry_checks")
            if not close(i1, -i2, rtol=1e-12, atol=1e-9 * float(np.max(np.abs(i1)) + 1)):
                obs.violate("integral_not_antisymmetric", "%s: I(%s..%s)=%s but I(reversed)=%s" % (label, low, up, i1, i2), label=label)
        try:
            iac = float(prop.get_at_integral_value(c, a))
            iab = float(prop.get_at_integral_value(b, a))
            ibc = float(prop.get_at_integral_value(c, b))
        except Exception:
            continue
        obs.count("integral_additivity_checks")
        scale = abs(iab) + abs(ibc) + 1e-300
        if abs(iac - (iab + ibc)) > 1e-9 * scale:
            obs.violate("integral_not_additive", "%s: I(a,c)=%.12g but I(a,b)+I(b,c)=%.12g (a=%.6g b=%.6g c=%.6g)"
                        % (label, iac, iab + ibc, a, b, c), label=label)
        # independent quadrature of the property values (trapezoids; the tabulated points are grid points, so the rule is
        # exact for interpolated properties)
        grid = np.unique(np.concatenate([np.linspace(a, c, 201 if knots is not None else 801), [k for k in (knots if knots is not None else []) if a < k < c]]))
        gv = np.asarray(value_fn(grid), float)
        quad = float(np.sum((grid[1:] - grid[:-1]) * (gv[1:] + gv[:-1]) / 2))
        obs.count("integral_quadrature_checks")
        if abs(iac - quad) > (1e-9 if knots is not None else 2e-5) * (abs(quad) + abs(float(np.max(np.abs(gv))) * (c - a)) + 1e-300):
            obs.violate("integral_differs_from_quadrature", "%s: integral over [%.6g, %.6g] = %.12g, quadrature of the property values gives %.12g"
                        % (label, a, c, iac, quad), label=label)
        xs = np.linspace(a, c, 400)
        vals = np.asarray(value_fn(xs), float)
        mean = iac / (c - a) if c > a else None
        if mean is not None:
            obs.count("integral_mean_checks")
            if not (vals.min() - 1e-9 * abs(vals.min()) - 1e-12 <= mean <= vals.max() + 1e-9 * abs(vals.max()) + 1e-12):
                obs.violate("integral_inconsistent_with_values", "%s: mean value %.12g over [%.6g, %.6g] outside the property's range [%.12g, %.12g]"
                            % (label, mean, a, c, vals.min(), vals.max()), label=label)


def run_library(case, obs):
    import pandapipes as pp
    import pandas as pd
    from pandapipes.properties.fluids import call_lib
    rng = np.random.default_rng([case["seed"], abs(hash(case["fluid"])) % 1000, 19])
    fluid = call_lib(case["fluid"])
    pdir = os.path.join(os.path.dirname(pp.__file__), "properties", case["fluid"])
    for pname, getter in (("density", fluid.get_density), ("viscosity", fluid.get_viscosity), ("heat_capacity", fluid.get_heat_capacity)):
        data = np.loadtxt(os.path.join(pdir, pname + ".txt"))
        order = np.argsort(data[:, 0])
        x, y = data[order, 0], data[order, 1]
        label = "%s.%s" % (case["fluid"], pname)
        got = np.asarray(getter(x), float)
        obs.count("tabulated_points_checked", len(x))
        if not close(got, y, rtol=1e-12):
            obs.violate("tabulated_value_not_reproduced", "%s does not reproduce its table at %s" % (label, x[np.argmax(np.abs(got - y))]), label=label)
        mids = (x[1:] + x[:-1]) / 2
        q = np.concatenate([mids, rng.uniform(x[0], x[-1], 20)])
        obs.count("interpolation_checked", len(q))
        if not close(getter(q), ref_interp(x, y, q), rtol=1e-11):
            obs.violate("not_linear_between_points", "%s is not the linear interpolant of its table" % label, label=label)
        span = x[-1] - x[0]
        q = np.concatenate([rng.uniform(x[0] - 2 * span, x[0], 10), rng.uniform(x[-1], x[-1] + 2 * span, 10)])
        obs.count("extrapolation_checked", len(q))
        if not close(getter(q), ref_interp(x, y, q), rtol=1e-10):
            obs.violate("not_linear_beyond_points", "%s does not extrapolate linearly beyond its table" % label, label=label)
        check_shapes(obs, getter, label, rng, x[0] - span, x[-1] + span)
        integral_laws(obs, fluid.all_properties[pname], label, rng, x[0] - 0.5 * span, x[-1] + 0.5 * span, getter, knots=x)
        obs.count("property_class_interextra")
    slope, offset = np.loadtxt(os.path.join(pdir, "compressibility.txt"))
    der = float(np.loadtxt(os.path.join(pdir, "der_compressibility.txt")))
    p = rng.uniform(0.5, 100, 30)
    obs.count("compressibility_slope_checks")
    if not close(fluid.get_compressibility(p), offset + slope * p, rtol=1e-13):
        obs.violate("compressibility_not_linear", "%s compressibility differs from offset + slope * p of its data file" % case["fluid"])
    fd = (float(fluid.get_compressibility(60.0)) - float(fluid.get_compressibility(10.0))) / 50.0
    got_der = float(np.asarray(fluid.get_der_compressibility()).ravel()[0])
    if abs(fd - got_der) > 1e-12 + 1e-9 * abs(fd) or abs(got_der - der) > 1e-15:
        obs.violate("compressibility_slope_differs_from_derivative", "%s: compressibility slope %.6g, stored derivative %.6g"
                    % (case["fluid"], fd, got_der), fluid=case["fluid"], slope=fd, derivative=got_der)
    check_shapes(obs, fluid.get_compressibility, case["fluid"] + ".compressibility", rng, 0.5, 100)
    integral_laws(obs, fluid.all_properties["compressibility"], case["fluid"] + ".compressibility", rng, 0.5, 100, fluid.get_compressibility)
    obs.count("property_class_linear")
    mm = float(np.loadtxt(os.path.join(pdir, "molar_mass.txt")))
    if float(np.asarray(fluid.get_molar_mass()).ravel()[0]) != mm:
        obs.violate("molar_mass_differs", "%s molar mass differs from its data file" % case["fluid"])
    integral_laws(obs, fluid.all_properties["molar_mass"], case["fluid"] + ".molar_mass", rng, 0.0, 10.0,
                  lambda q: np.full(np.shape(q), mm))
    obs.count("property_class_constant")
    return {"fluid": case["fluid"], "tables": ["density", "viscosity", "heat_capacity", "compressibility", "molar_mass"]}


def run_stdtypes(case, obs):
    import pandapipes as pp
    import pandas as pd
    csv = pd.read_csv(os.path.join(os.path.dirname(pp.__file__), "std_types", "library", "Pipe.csv"), sep=";", index_col=0)
    net = pp.create_empty_network(fluid="water")
    j = pp.create_junctions(net, 2, 1.0, 300.0)
    rng = np.random.default_rng([case.get("seed", 0), 1919])
    for name, row in csv.iterrows():
        # an individual override on one pipe (single or bulk call) must not reach the library entry: the next pipe of the same
        # type still gets the library values
        r = rng.random()
        if r < 0.35:
            pp.create_pipe(net, j[0], j[1], std_type=name, length_km=0.1, k_mm=float(row["k_mm"]) * 3 + 0.5, u_w_per_m2k=7.0)
            obs.count("std_type_rows_after_individual_override")
        elif r < 0.5:
            pp.create_pipes(net, [j[0], j[0]], [j[1], j[1]], std_type=name, length_km=0.1, k_mm=float(row["k_mm"]) * 3 + 0.5)
            obs.count("std_type_rows_after_individual_override")
        idx = pp.create_pipe(net, j[0], j[1], std_type=name, length_km=0.1)
        obs.count("std_type_rows_checked")
        got = net.pipe.loc[idx]
        for col in ("inner_diameter_mm", "outer_diameter_mm", "k_mm"):
            if not (float(got[col]) == float(row[col])):
                obs.violate("std_type_parameter_changed", "pipe from std type %s: %s=%r, library says %r" % (name, col, got[col], row[col]),
                            std_type=name, column=col)
        if not math.isnan(float(row["u_w_per_m2k"])) and float(got["u_w_per_m2k"]) != float(row["u_w_per_m2k"]):
            obs.violate("std_type_parameter_changed", "pipe from std type %s: u_w_per_m2k=%r, library says %r" % (name, got["u_w_per_m2k"], row["u_w_per_m2k"]))
        if got["std_type"] != name:
            obs.violate("std_type_parameter_changed", "pipe from std type %s stores std_type %r" % (name, got["std_type"]))
        lib = net.std_types["pipe"][name]
        for col in ("inner_diameter_mm", "outer_diameter_mm", "k_mm"):
            if float(lib[col]) != float(row[col]):
                obs.violate("std_type_library_entry_changed", "net.std_types['pipe'][%r][%s]=%r after creating pipes, library file says %r"
                            % (name, col, lib[col], row[col]), std_type=name, column=col)
    return {"std_types": len(csv)}


def poly(reg, v):
    n = len(reg)
    x = v * 3600.0
    return max(0.0, sum(float(c) * x ** (n - 1 - i) for i, c in enumerate(reg))) if v >= 0 else 0.0


def run_batch(case, obs):
    import pandapipes as pp
    import pandas as pd
    from pandapipes.properties import fluids as fl, properties_toolbox as pt
    from pandapipes.std_types.std_type_class import PumpStdType
    rng = np.random.default_rng([case["seed"], case["i"], 19])
    # ---- user-defined properties of every class
    n = int(rng.integers(3, 9))
    x = np.sort(rng.uniform(250, 400, n))
    x += np.arange(n) * 1e-3
    y = rng.uniform(0.5, 2000, n)
    ie = fl.FluidPropertyInterExtra(x, y)
    lab = "user InterExtra"
    if not close(ie.get_at_value(x), y, rtol=1e-12):
        obs.violate("tabulated_value_not_reproduced", "%s does not reproduce its points" % lab)
    q = rng.uniform(x[0] - 100, x[-1] + 100, 30)
    obs.count("interpolation_checked", 30)
    if not close(ie.get_at_value(q), ref_interp(x, y, q), rtol=1e-10):
        obs.violate("not_linear_between_points", "%s is not piecewise linear with linear extrapolation" % lab)
    integral_laws(obs, ie, lab, rng, x[0] - 50, x[-1] + 50, ie.get_at_value, knots=x)
    check_shapes(obs, ie.get_at_value, lab, rng, x[0] - 50, x[-1] + 50)
    obs.count("property_class_interextra")
    slope, offset = float(rng.uniform(-1e-2, 1e-2)), float(rng.uniform(0.5, 2))
    lin = fl.FluidPropertyLinear(slope, offset)
    if not close(lin.get_at_value(q), offset + slope * q, rtol=1e-13):
        obs.violate("linear_property_value", "user Linear property is not offset + slope * x")
    integral_laws(obs, lin, "user Linear", rng, 0.0, 100.0, lin.get_at_value)
    check_shapes(obs, lin.get_at_value, "user Linear", rng, 0, 100)
    obs.count("property_class_linear")
    cv = float(rng.uniform(0.1, 5000))
    con = fl.FluidPropertyConstant(cv)
    integral_laws(obs, con, "user Constant", rng, 0.0, 500.0, lambda z: np.full(np.shape(z), cv))
    check_shapes(obs, con.get_at_value, "user Constant", rng, 0, 100)
    obs.count("property_class_constant")
    deg = int(rng.integers(1, 4))
    pol = fl.FluidPropertyPolynominal(x, y, deg)
    integral_laws(obs, pol, "user Polynominal", rng, x[0], x[-1], pol.get_at_value)
    check_shapes(obs, pol.get_at_value, "user Polynominal", rng, x[0], x[-1])
    obs.count("property_class_polynominal")
    su = fl.FluidPropertySutherland(float(rng.uniform(1e-5, 2e-5)), 273.15, float(rng.uniform(80, 200)))
    t = rng.uniform(250, 500, 5)
    want = su.eta0 * (su.t0 + su.t_sutherland) / (su.t_sutherland + t) * (t / su.t0) ** 1.5
    if not close(su.get_at_value(t), want, rtol=1e-13):
        obs.violate("sutherland_value", "Sutherland property differs from its formula")
    # ---- mixtures
    k = int(rng.integers(2, 6))
    molar = rng.dirichlet(np.ones(k))
    mm = rng.uniform(2, 60, k)
    mass = pt.calculate_mass_fraction_from_molar_fraction(molar, mm)
    obs.count("mixture_checks")
    if abs(mass.sum() - 1) > 1e-12 or np.any(mass < 0):
        obs.violate("mixture_fractions", "mass fractions from molar fractions sum to %.15g" % mass.sum())
    m1 = pt.calculate_mixture_molar_mass(mm, components_molar_proportions=molar)
    m2 = pt.calculate_mixture_molar_mass(mm, components_mass_proportions=mass)
    if abs(m1 - m2) > 1e-10 * m1:
        obs.violate("mixture_molar_mass_forms_not_inverse", "mixture molar mass %.12g (molar form) vs %.12g (mass form)" % (m1, m2))
    back = mass / mm / np.sum(mass / mm)
    if not close(back, molar, rtol=1e-10):
        obs.violate("mixture_fraction_conversion_not_inverse", "molar -> mass -> molar does not return the molar fractions")
    for nm, fn, args in (("density", pt.calculate_mixture_density, (rng.uniform(0.1, 2, k), mass)),
                         ("heat_capacity", pt.calculate_mixture_heat_capacity, (rng.uniform(900, 15000, k), mass)),
                         ("viscosity", pt.calculate_mixture_viscosity, (rng.uniform(5e-6, 3e-5, k), molar, mm)),
                         ("molar_mass", lambda a, b: pt.calculate_mixture_molar_mass(a, components_molar_proportions=b), (mm, molar))):
        res = float(fn(*args))
        comp = np.asarray(args[0], float)
        obs.count("mixture_checks")
        if not (comp.min() * (1 - 1e-12) <= res <= comp.max() * (1 + 1e-12)):
            obs.violate("mixture_out_of_component_bounds", "mixture %s %.6g outside component range [%.6g, %.6g]" % (nm, res, comp.min(), comp.max()))
        # 2-d form (several temperatures at once) equals the 1-d form per column
        cols = np.stack([comp, comp * 1.1], axis=1)
        try:
            res2 = fn(cols, *args[1:]) if nm != "molar_mass" else None
            if res2 is not None and not close(np.asarray(res2, float), [res, float(fn(comp * 1.1, *args[1:]))], rtol=1e-12):
                obs.violate("mixture_2d_differs", "mixture %s: 2-d evaluation differs from per-column evaluation" % nm)
        except Exception as e:
            obs.violate("mixture_2d_raises", "mixture %s raised %s for 2-d input" % (nm, type(e).__name__))
    # ---- pumps
    net = pp.create_empty_network(fluid="water")
    pumps = [("P1", net.std_types["pump"]["P1"]), ("P2", net.std_types["pump"]["P2"]), ("P3", net.std_types["pump"]["P3"])]
    xs = np.sort(rng.uniform(0, 150, 5))
    ys = np.sort(rng.uniform(0.5, 9, 5))[::-1]
    pumps.append(("user_list", PumpStdType.from_list("user", xs, ys, int(rng.integers(1, 4)))))
    pumps.append(("user_poly", PumpStdType("userp", rng.uniform(-1e-3, 1e-3, 3) * np.array([1, 10, 1000]) + np.array([0, 0, 3.0]))))
    for name, pt_ in pumps:
        reg = np.asarray(pt_.reg_par, float)
        v = np.concatenate([rng.uniform(-0.05, 0.08, 8), [0.0, 1.0, -1e-9]])
        arr = None
        try:
            arr = np.asarray(pt_.get_pressure(v), float)
            obs.count("pump_array_checks")
        except Exception as e:
            obs.violate("pump_array_branch", "pump %s: get_pressure raised %s for an array with flows of both signs" % (name, type(e).__name__), pump=name)
        for i, vi in enumerate(v):
            s = float(pt_.get_pressure(float(vi)))
            want = poly(reg, float(vi))
            obs.count("pump_scalar_checks")
            if vi < 0:
                obs.count("pump_reverse_flow_checks")
            if s < 0 or abs(s - want) > 1e-9 * max(1, abs(want)):
                obs.violate("pump_scalar_lift", "pump %s: lift %.9g at %.6g m3/s, expected %.9g" % (name, s, vi, want), pump=name)
            if arr is not None and (arr.shape != v.shape or abs(arr[i] - want) > 1e-9 * max(1, abs(want))):
                obs.violate("pump_array_branch", "pump %s: array query gives %.9g at %.6g m3/s, scalar query %.9g" % (name, arr[i] if arr.shape == v.shape else float("nan"), vi, s), pump=name)
        try:
            pos = np.asarray(pt_.get_pressure(np.abs(v) + 0.5), float)
            if np.any(pos < 0):
                obs.violate("pump_array_branch", "pump %s: negative lift %.6g from an array query" % (name, pos.min()), pump=name)
        except Exception as e:
            obs.violate("pump_array_branch", "pump %s: get_pressure raised %s for an all-positive array" % (name, type(e).__name__))
    return {"batch": case["i"], "interextra_points": n, "mixture_components": k, "pumps": [p[0] for p in pumps]}


def run_case(case, ctx):
    obs = Obs()
    if case["kind"] == "library":
        sample = run_library(case, obs)
    elif case["kind"] == "stdtypes":
        sample = run_stdtypes(case, obs)
    else:
        sample = run_batch(case, obs)
    n = sum(v for k, v in obs.counters.items() if k != "violations_raw")
    rec = {"nontrivial": n >= 10, "sample": sample}
    rec.update(obs.record())
    return rec
