"""C12 - pipeflow is a pure, repeatable function of the network description."""
import copy

import numpy as np

from pvmon import netgen
from pvmon.fingerprint import fingerprint, diff, result_bytes
from pvmon.monitors import Obs
from pvmon.props.common import suite_cases, run_suite_case, rng_for

MANIFEST = {
    "text": "Held on every call of the seeded call histories: hook H1 fingerprints every user-facing entry (tables with dtypes/index/row order, fluid, standard types, user options, stored defaults) at pipeflow entry and compares at exit on the normal and the exceptional path; every call is repeated on a fresh build carrying the same edits and must give the same outcome class and bit-identical result tables; heat-only runs from a stored hydraulic solution equal the sequential run.",
    "note": "The solver's own marker user_pf_options['hyd_flag'] is exempt from the purity check (it is judged through its effect: outcome class vs a fresh copy). Bit identity is demanded because both sides perform the same arithmetic.",
    "technique": "runtime monitoring: entry/exit fingerprint contract on the hooked pipeflow + history-independence oracle against fresh copies",
}
RULE = ("seeded call histories of 2-7 pipeflow calls on one net object (gas, water, heating nets; modes hydraulics / sequential "
        "/ bidirectional / heat; numba on/off; damping; tolerance and budget changes incl. failing calls; parameter edits that "
        "are later undone; NaN outer diameters; user options set and reset); non-trivial = >= 2 calls compared against a fresh "
        "copy with >= 1 returned call; distinct = case parameter hash")
ASSUMPTIONS = ["a fresh copy is a new build of the same spec through the public create_* API with the same edits applied"]
CONFIG = {"quick": {"shards": 8, "timeout_s": 900, "cases": 200},
          "thorough": {"shards": 16, "timeout_s": 3000, "cases": 6000}}
REQUIRED_COUNTERS = ["calls_without_reuse_after_a_caching_call", "calls_without_reuse_after_a_caching_call_and_structural_edit", "purity_checks_on_return", "purity_checks_on_exception", "repeat_bit_identical_checks",
                     "history_vs_fresh_checks", "history_vs_fresh_after_failure", "heat_from_stored_hydraulics_checks",
                     "edit_and_restore_checks", "outcome_class_checks", "calls_after_feeder_switching"]

_EVENTS = []


def worker_init(ctx):
    import pandapipes._verif as v
    if not v.ENABLED:
        raise RuntimeError("PANDAPIPES_VERIF hooks are not enabled")
    from pandapipes.pf import pipeflow_setup

    def sink(ev, p):
        if ev == "enter":
            _EVENTS.append(("enter", fingerprint(p["net"], per_column=True), repr(sorted(pipeflow_setup.default_options.items(), key=str))))
        elif ev == "exit":
            _EVENTS.append(("exit", fingerprint(p["net"], per_column=True), repr(sorted(pipeflow_setup.default_options.items(), key=str)),
                            p["exc"] is not None))
    v.register(sink)


def gen_cases(tier, seed):
    _cases = [{"seed": seed, "i": i, "kind": ["hyd", "heat", "heat", "hyd"][i % 4]} for i in range(CONFIG[tier]["cases"])]
    if tier == "thorough":
        _cases = list(_cases) + suite_cases()
    return _cases


MODES_HEAT = ["hydraulics", "sequential", "bidirectional", "heat", "sequential"]


def make(case):
    rng = rng_for("C12", case["seed"], case["i"])
    if case["kind"] == "heat":
        spec = netgen.gen_heating(rng) if rng.random() < 0.7 else netgen.gen_thermal_mesh(rng)
    else:
        spec = netgen.gen_hydraulic(rng, features=[("valves", "pi_valves"), ("pump", "compressor", "mass_storage"),
                                                   ("flow_control", "press_control", "heat_exchanger"),
                                                   ("islands", "oos", "multi_grid")][int(rng.integers(4))])
        if any(j["name"] for j in spec["junctions"]) and len(spec["junctions"]) > sum(1 for e in spec["elements"] if e["kind"] == "x") and \
                any(e["kind"] == "sink" and e["junction"] == spec["junctions"][-1]["name"] for e in spec["elements"]):
            # islands feature: the island gets its own feeder that edits switch off and on again
            eg0 = [e for e in spec["elements"] if e["kind"] == "ext_grid"][0]
            spec["elements"].append({"kind": "ext_grid", "name": "eg_island", "junction": spec["junctions"][-1]["name"],
                                     "p_bar": eg0["p_bar"] * 0.9, "t_k": 300.0, "in_service": True})
    nan_outer = bool(rng.random() < 0.3)
    calls = []
    edited = False
    for k in range(int(rng.integers(2, 8))):
        mode = str(rng.choice(MODES_HEAT)) if case["kind"] == "heat" else "hydraulics"
        if case["kind"] == "heat" and calls and calls[-1]["opts"]["mode"] in ("hydraulics", "sequential") and rng.random() < 0.6:
            mode = "heat"
        opts = {"mode": mode, "use_numba": bool(rng.random() < 0.5), "iter": 100}
        r = rng.random()
        if r < 0.3:
            opts["nonlinear_method"] = "automatic"
        if rng.random() < 0.2:
            opts["iter"] = int(rng.integers(1, 4))   # will usually fail
        if rng.random() < 0.3:
            opts.update(tol_p=1e-8, tol_m=1e-8, tol_res=1e-7, tol_T=1e-7)
        if rng.random() < 0.25:
            opts["friction_model"] = str(rng.choice(["colebrook", "swamee-jain"]))
        if mode != "heat" and rng.random() < 0.3:
            # cached matrix structure: kept over calls only while the caller asks for it (reuse_internal_data)
            opts["only_update_hydraulic_matrix"] = True
            if rng.random() < 0.5:
                opts["reuse_internal_data"] = True
        edit = None
        e = rng.random()
        pipes = [x["name"] for x in spec["elements"] if x["kind"] in ("pipe", "pipe_std")]
        if e > 0.85 and pipes:
            edit = ("flip_pipe", str(rng.choice(pipes)))       # changes the structure of the system matrix; flipping twice restores
        elif e < 0.25:
            edit = ("scale_loads", float(rng.choice([0.5, 2.0, 50.0])))
            edited = True
        elif e < 0.45 and edited:
            edit = ("restore", None)
            edited = False
        elif e < 0.5 and any(x["name"] == "eg_island" for x in spec["elements"]):
            edit = ("feeder", bool(rng.random() < 0.5))
        elif e < 0.55:
            edit = ("user_options", [{"tol_p": 1e-7, "max_iter_hyd": 60}, {"iter": 70, "tol_m": 1e-6}, {"iter": 80, "max_iter_therm": 90}][int(rng.integers(3))])
        elif e < 0.6:
            edit = ("clear_user_options", None)
        calls.append({"opts": opts, "edit": edit})
    return spec, nan_outer, calls


def apply_edit(net, edit, state):
    import pandapipes as pp
    if edit is None:
        return
    kind, arg = edit
    if kind == "scale_loads":
        for t in ("sink", "heat_consumer"):
            col = "mdot_kg_per_s" if t == "sink" else "controlled_mdot_kg_per_s"
            if t in net and len(net[t]):
                state.setdefault("orig_" + t, net[t][col].copy())
                net[t][col] = state["orig_" + t] * arg
    elif kind == "restore":
        for t in ("sink", "heat_consumer"):
            col = "mdot_kg_per_s" if t == "sink" else "controlled_mdot_kg_per_s"
            if "orig_" + t in state:
                net[t][col] = state.pop("orig_" + t)
    elif kind == "feeder":
        if "ext_grid" in net and (net.ext_grid["name"] == "eg_island").any():
            net.ext_grid.loc[net.ext_grid["name"] == "eg_island", "in_service"] = arg
    elif kind == "flip_pipe":
        row = net.pipe.index[net.pipe["name"] == arg]
        if len(row):
            f, t = int(net.pipe.at[row[0], "from_junction"]), int(net.pipe.at[row[0], "to_junction"])
            net.pipe.at[row[0], "from_junction"], net.pipe.at[row[0], "to_junction"] = t, f
    elif kind == "user_options":
        pp.set_user_pf_options(net, **arg)
    elif kind == "clear_user_options":
        pp.set_user_pf_options(net, reset=True)


def call(net, opts, sol):
    import pandapipes as pp
    from pandapipes.pf.pipeflow_setup import PipeflowNotConverged
    kw = dict(opts)
    if kw["mode"] == "heat":
        kw["sol_vec"] = sol
    try:
        pp.pipeflow(net, **kw)
        return "ok", None
    except PipeflowNotConverged as e:
        return "not_converged", e
    except Exception as e:
        return "error:" + type(e).__name__, e


def solution_vector(net):
    from pandapipes.idx_node import PINIT
    from pandapipes.idx_branch import MDOTINIT
    return np.concatenate((net._pit["node"][:, PINIT], net._pit["branch"][:, MDOTINIT]))


def run_case(case, ctx):
    if case.get("kind") == "repo_suite":
        obs = Obs()
        n = run_suite_case(case, "C12", obs)
        rec = {"nontrivial": n > 0, "sample": {"repo_suite_part": case["part"], "pipeflow_calls_observed": n}, "evaluations": max(n, 1)}
        rec.update(obs.record())
        return rec
    spec, nan_outer, calls = make(case)
    obs = Obs()

    def fresh():
        n = netgen.build(spec)
        if nan_outer and "pipe" in n and len(n.pipe):
            n.pipe.loc[n.pipe.index[::2], "outer_diameter_mm"] = np.nan
        return n

    net = fresh()
    state = {}
    edits_so_far = []
    sol = None          # hydraulic solution of the last returned hydraulic-capable run on the history object
    sol_edits = None
    compared = returned = 0
    had_failure = False
    last_hyd_opts = None
    sol_mode = None
    cache_alive = cache_stale = False
    for ci, c in enumerate(calls):
        apply_edit(net, c["edit"], state)
        if c["edit"] is not None:
            edits_so_far.append(c["edit"])
            if c["edit"][0] in ("flip_pipe", "feeder") and cache_alive:
                cache_stale = True
        opts = c["opts"]
        # A caller who asks to reuse internal data after changing the structure of the network gets what he asked for: such a
        # call is not judged.  Every call that does not ask for reuse must be independent of whatever an earlier call cached.
        keeps = bool(opts.get("only_update_hydraulic_matrix") and opts.get("reuse_internal_data"))
        if keeps and cache_stale:
            obs.count("reuse_requested_after_structural_edit_not_judged")
            call(net, opts, sol)
            continue
        hyd_call = not (opts["mode"] == "heat" and sol is not None and sol_edits == list(edits_so_far) and sol_mode != "bidirectional")
        if hyd_call:     # a heat-only call does not build or drop the hydraulic cache
            if cache_alive and not keeps:
                obs.count("calls_without_reuse_after_a_caching_call" + ("_and_structural_edit" if cache_stale else ""))
            cache_alive, cache_stale = keeps, False
        # heat-only runs are issued when the object holds the hydraulic-stage solution of the present description
        # (a bidirectional solution is a different one for temperature-dependent flows: QE_DT / QE_TR consumers)
        if opts["mode"] == "heat" and (sol is None or sol_edits != list(edits_so_far) or sol_mode == "bidirectional"):
            opts = dict(opts, mode="sequential")
        desc = {"call": ci, "options": opts, "edits_before": [e[0] for e in edits_so_far], "nan_outer": nan_outer}
        del _EVENTS[:]
        outcome, exc = call(net, opts, sol)
        ev = list(_EVENTS)
        # ---- purity contract (entry vs exit fingerprints delivered by hook H1)
        if len(ev) >= 2 and ev[0][0] == "enter" and ev[-1][0] == "exit":
            changed = diff(ev[0][1], ev[-1][1])
            obs.count("purity_checks_on_exception" if ev[-1][3] else "purity_checks_on_return")
            if changed:
                tag = "pipeflow_mutates_outer_diameter" if changed == ["pipe.outer_diameter_mm"] else "pipeflow_mutates_input"
                obs.violate(tag, "pipeflow changed user entries %s (outcome %s)" % (changed, outcome), changed=changed, **desc)
            if ev[0][2] != ev[-1][2]:
                obs.violate("pipeflow_mutates_default_options", "stored default options changed during a call", **desc)
        else:
            obs.count("hook_events_missing")
        # ---- the same call on a fresh copy carrying the same edits
        ref = fresh()
        rstate = {}
        for e in edits_so_far:
            apply_edit(ref, e, rstate)
        ref_opts = dict(opts)
        if opts["mode"] == "heat":
            # a fresh object gets the same preparation the history object had last: its most recent run that
            # solves hydraulics (possibly a failing one), then the heat-only call with the same stored solution
            if last_hyd_opts is not None:
                call(ref, last_hyd_opts, None)
            routcome, rexc = call(ref, ref_opts, sol)
        else:
            routcome, rexc = call(ref, ref_opts, None)
        obs.count("outcome_class_checks")
        compared += 1
        if outcome.split(":")[0] != routcome.split(":")[0]:
            tag = "stale_hyd_flag_after_failed_run" if (opts["mode"] == "heat") else "outcome_depends_on_history"
            obs.violate(tag, "call %d: %s on the history object, %s on a fresh copy" % (ci, outcome, routcome), **desc)
        elif outcome == "ok":
            returned += 1
            a, b = result_bytes(net), result_bytes(ref)
            if opts["mode"] == "heat":
                obs.count("heat_from_stored_hydraulics_checks")
                # hydraulic result columns are not written in heat mode: compare the thermal results numerically
                from pvmon.compare import snapshot, diff_snapshots
                sa = snapshot(net)
                for t in sa:
                    for row in sa[t].values():
                        for col in list(row):
                            if not (col.startswith("t_") or col in ("deltat_k", "qext_w")):
                                del row[col]
                # reference for the numbers: a sequential run with a generous budget on another fresh copy
                seq = fresh()
                sstate = {}
                for e in edits_so_far:
                    apply_edit(seq, e, sstate)
                # physical options of the run that produced the stored hydraulic solution, thermal options of this call
                so, _ = call(seq, dict(last_hyd_opts or {}, **{k: v for k, v in opts.items() if k in ("tol_T", "use_numba")},
                                       mode="sequential", iter=200), None)
                sb = snapshot(seq) if so == "ok" else sa
                tolT = float(opts.get("tol_T", 1e-3))
                d, n, md = diff_snapshots(sa, sb, rtol=1e-6, atol=50 * tolT + 5e-3, col_atol={"qext_w": 1e9})
                if d:
                    obs.violate("heat_mode_differs_from_sequential", "heat-only run from the stored hydraulic solution differs from "
                                "the sequential run: res_%s[%s].%s %s" % d[0][:4], **desc)
            else:
                obs.count("history_vs_fresh_checks")
                if had_failure:
                    obs.count("history_vs_fresh_after_failure")
                if any(e[0] == "restore" for e in edits_so_far):
                    obs.count("edit_and_restore_checks")
                if any(e[0] == "feeder" for e in edits_so_far):
                    obs.count("calls_after_feeder_switching")
                bad = diff(a, b)
                if bad:
                    obs.violate("results_depend_on_history", "call %d: result tables %s differ from those of a fresh copy" % (ci, bad),
                                tables=bad, **desc)
                # repeat on the same object: bit identical
                out2, _ = call(net, opts, sol)
                obs.count("repeat_bit_identical_checks")
                if out2 != "ok" or diff(a, result_bytes(net)):
                    obs.violate("repeat_not_identical", "repeating call %d gives %s / different result tables %s"
                                % (ci, out2, diff(a, result_bytes(net))), **desc)
            if opts["mode"] in ("hydraulics", "sequential", "bidirectional"):
                sol = solution_vector(net)
                sol_edits = list(edits_so_far)
                sol_mode = opts["mode"]
                last_hyd_opts = dict(opts)
        else:
            if opts["mode"] != "heat":
                last_hyd_opts = dict(opts)
            had_failure = True
            obs.count("calls_failed_" + outcome.split(":")[0])
            if opts["mode"] != "heat":
                sol = sol  # a failed run must not invalidate what the user stored; the flag is judged via outcome class
    rec = {"nontrivial": compared >= 2 and returned >= 1}
    if rec["nontrivial"]:
        rec["sample"] = {"case": case, "net": netgen.spec_summary(spec), "nan_outer_diameter": nan_outer,
                         "calls": [{"mode": c["opts"]["mode"], "iter": c["opts"]["iter"], "edit": c["edit"][0] if c["edit"] else None}
                                   for c in calls]}
    rec.update(obs.record())
    return rec
