"""C02 - every flowing branch obeys the documented pressure-loss law."""
from pvmon import netgen
from pvmon.monitors import Obs, mon_c02
from pvmon.props.common import suite_cases, run_suite_case, rng_for, run_pipeflow

MANIFEST = {'text': 'Held on every flowing section of the seeded workload: an independently written momentum law (liquid and real-gas form, 3 friction models) leaves residuals <=1e-11 bar on tight solves and reported Re/lambda/velocities/norm factors follow from reported mdot/p/T.', 'note': "Fluid property values come from the public Fluid API; interior nodes of multi-section pipes are read from the solver's node table; the law is the documented one.", 'technique': 'runtime monitoring: independent constitutive-law oracle evaluated on every branch section of every returned solution'}

RULE = ("seeded random networks of every library fluid with heights, loss coefficients, 1-4 sections, ju/pi "
        "valves and heat exchangers, load scale swept over 6 decades (Reynolds ~1 .. 1e7), 3 friction models, numba "
        "on/off, tight and default tolerances; after each returned pipeflow the independent momentum law of "
        "pvmon.physics is evaluated for every in-service pipe section, valve and heat exchanger (also on bidirectional thermal runs of hot-water meshes with reverse flow and heat loss), and reported "
        "Re, lambda, velocities, volume flow and norm factors are recomputed from reported mdot/p/T; a case is "
        "non-trivial when >= 3 flowing sections (Re >= 1e-9) were judged; distinct = case parameter hash")
ASSUMPTIONS = ["fluid property values are taken through the public Fluid API (C19 checks those)",
               "interior node values of multi-section pipes are read from the solver's node table",
               "a pipe's lumped loss coefficient is applied once per pipe (zeta/n per section)"]
CONFIG = {
    "quick": {"shards": 8, "timeout_s": 600, "cases": 560},
    "thorough": {"shards": 16, "timeout_s": 3000, "cases": 12000},
}
REQUIRED_COUNTERS = ["law_sections_gas_turbulent", "law_sections_liquid_turbulent", "law_sections_gas_laminar",
                     "law_sections_liquid_laminar", "law_sections_reverse_flow", "law_sections_height_difference",
                     "law_sections_with_loss_coefficient", "multi_section_pipes", "law_valve", "law_heat_exchanger",
                     "derived_quantities_checked", "runs_nikuradse", "runs_colebrook", "runs_swamee-jain",
                     "runs_numba", "runs_numpy", "runs_bidirectional"]
FLUIDS = ["water", "lgas", "hgas", "hydrogen", "methane", "water", "biomethane_pure", "biomethane_treated", "air"]
FLUIDS_UNUSED = [
          "carbondioxide", "ethane", "nitrogen", "oxygen"]
FMODELS = ["nikuradse", "colebrook", "swamee-jain"]
FEATS = [(), ("valves", "heat_exchanger"), ("valves", "pi_valves"), ("multi_grid",), ("heat_exchanger", "multi_grid", "valves")]


def gen_cases(tier, seed):
    out = []
    for i in range(CONFIG[tier]["cases"]):
        out.append({"seed": seed, "i": i, "fluid": FLUIDS[i % len(FLUIDS)], "fm": FMODELS[(i // 3) % 3],
                    "numba": bool((i // 2) % 2), "feats": list(FEATS[(i // 5) % len(FEATS)]),
                    "tight": bool(i % 4 != 3)})
    for i in range(CONFIG[tier]["cases"] // 4):
        out.append({"seed": seed, "i": 10 ** 6 + i, "thermal": True, "fluid": "water", "fm": FMODELS[i % 3], "numba": bool((i // 3) % 2),
                    "feats": [], "tight": True})
    _cases = out
    if tier == "thorough":
        _cases = list(_cases) + suite_cases()
    return _cases


def make(case):
    rng = rng_for("C02", case["seed"], case["i"])
    if case.get("thermal"):
        # bidirectional mode: hydraulics and temperatures are solved together, so density and viscosity belong to the
        # reported temperatures; meshes with two feeders give reverse flow, heat loss gives a temperature change along pipes
        spec = netgen.gen_thermal_mesh(rng, max_sections=3) if rng.random() < 0.6 else netgen.gen_heating(rng, u_max=10.0)
        opts = {"friction_model": case["fm"], "use_numba": case["numba"], "iter": 300, "mode": "bidirectional",
                "tol_p": 1e-10, "tol_m": 1e-10, "tol_res": 1e-9, "tol_T": 1e-9, "tolerance_colebrook": 1e-12, "max_iter_colebrook": 200}
        return spec, opts
    qscale = float(10 ** rng.uniform(-5, 0.3)) if rng.random() < 0.5 else 1.0
    spec = netgen.gen_hydraulic(rng, fluid=case["fluid"], features=case["feats"], max_sections=4, qscale=qscale,
                                label_scheme=str(rng.choice(["contiguous", "shuffled", "gaps"])))
    opts = {"friction_model": case["fm"], "use_numba": case["numba"], "iter": 300}
    if case["tight"]:
        opts.update(tol_p=1e-10, tol_m=1e-10, tol_res=1e-9, tolerance_colebrook=1e-12, max_iter_colebrook=200)
    return spec, opts


def run_case(case, ctx):
    if case.get("kind") == "repo_suite":
        obs = Obs()
        n = run_suite_case(case, "C02", obs)
        rec = {"nontrivial": n > 0, "sample": {"repo_suite_part": case["part"], "pipeflow_calls_observed": n}, "evaluations": max(n, 1)}
        rec.update(obs.record())
        return rec
    spec, opts = make(case)
    net = netgen.build(spec)
    obs = Obs()
    outcome, exc = run_pipeflow(net, opts)
    obs.count("outcome_" + outcome)
    rec = {}
    if outcome == "ok":
        mon_c02(net, obs, opts)
        obs.count("runs_" + case["fm"])
        if case.get("thermal"):
            obs.count("runs_bidirectional")
        obs.count("runs_numba" if case["numba"] else "runs_numpy")
        obs.count("runs_fluid_" + case["fluid"])
        flowing = sum(v for k, v in obs.counters.items() if k.startswith("law_sections_") and
                      (k.endswith("laminar") or k.endswith("turbulent")))
        rec["nontrivial"] = flowing >= 3
        if rec["nontrivial"]:
            rec["sample"] = {"case": case, "net": netgen.spec_summary(spec), "options": opts,
                             "flowing_sections_judged": flowing,
                             "max_abs_law_residual_bar": max([v for k, v in obs.maxima.items() if "law_residual" in k] or [None])}
    rec.update(obs.record())
    return rec
