"""C18 - the topology graph agrees with the solver about what is connected."""
import heapq
import itertools
import math

import numpy as np

from pvmon import netgen, reach
from pvmon.monitors import Obs
from pvmon.props.common import rng_for, run_pipeflow

MANIFEST = {
    "text": "Held (up to the listed known findings) on every generated network with a consistent outage pattern: the junctions reported by unsupplied_junctions plus the out-of-service ones are exactly those the real pipeflow leaves without pressure; graph components equal the hydraulic islands; for random include_* / respect_status_* argument combinations (multigraph and simple graph) the edge multiset equals an independent expectation (one edge per in-service junction-junction branch, none for a junction-pipe valve, the pipe's edge removed when its junction-pipe valve is closed); distance functions equal an own Dijkstra over pipe lengths.",
    "note": "Where the tool deliberately differs from the solver (supply by circulation pumps, t-only grids, active flow controllers / heat consumers as connections, direction of pressure controllers) a mismatch is accepted only if the reachability model with exactly those relaxations reproduces the tool's answer; such mismatches are listed known findings.",
    "technique": "runtime monitoring: differential oracle between topology tools, an independent reachability / edge model and the NaN pattern of real pipeflow runs",
}
RULE = ("seeded gas/water nets and heating loops of five classes (plain; + t-only grid on an island; circulation-pump loops; + active "
        "flow controllers / consumers bridging to islands; + pressure controllers) with consistent random outage patterns (closed ju/pi "
        "valves, out-of-service branches, grids and junctions together with their branches); per net 6 random argument combinations of "
        "create_nxgraph; non-trivial = net with >= 1 unsupplied or out-of-service junction, or >= 1 edge comparison; distinct = case hash")
ASSUMPTIONS = ["outage patterns are consistent: an out-of-service junction has only out-of-service branches"]
CONFIG = {"quick": {"shards": 8, "timeout_s": 600, "cases": 300},
          "thorough": {"shards": 16, "timeout_s": 3000, "cases": 8000}}
REQUIRED_COUNTERS = ["nets_without_valve_table", "unsupplied_vs_solver_checks", "unsupplied_sets_nonempty", "component_checks", "edge_set_checks", "edge_set_checks_simple_graph", "edge_set_checks_with_index_list",
                     "pi_valve_edge_checks", "closed_pi_valve_checks", "distance_checks", "nets_class_plain", "nets_class_tgrid", "nets_class_loop",
                     "nets_class_fc", "nets_class_pc"]
CLASSES = ["plain", "tgrid", "loop", "fc", "pc"]
GRAPH_KW = {"pipe": "pipes", "valve": "valves", "pump": "pumps", "compressor": "compressors", "press_control": "press_controls",
            "flow_control": "flow_controls", "heat_consumer": "heat_consumers", "circ_pump_mass": "mass_circ_pumps",
            "circ_pump_pressure": "pressure_circ_pumps", "heat_exchanger": "heat_exchangers"}


def gen_cases(tier, seed):
    return [{"seed": seed, "i": i, "cls": CLASSES[i % 5]} for i in range(CONFIG[tier]["cases"])]


def make(case):
    rng = rng_for("C18", case["seed"], case["i"])
    cls = case["cls"]
    if cls == "loop":
        spec = netgen.gen_heating(rng, source=str(rng.choice(["cpp", "cpm"])), max_sections=2)
    else:
        feats = {"plain": ("valves", "pi_valves", "closed", "pump", "compressor", "heat_exchanger", "multi_grid", "islands"),
                 "tgrid": ("valves", "islands"), "fc": ("flow_control", "valves", "islands"),
                 "pc": ("press_control", "valves")}[cls]
        spec = netgen.gen_hydraulic(rng, fluid=str(rng.choice(["water", "lgas"])), features=feats, max_sections=2)
        if cls == "tgrid":
            isl = [j["name"] for j in spec["junctions"]][-1]
            spec["elements"].append({"kind": "ext_grid", "name": "eg_t", "junction": isl, "p_bar": 3.0, "t_k": 300.0, "type": "t", "in_service": True})
        if cls == "fc":
            # an active flow controller as the only link to a further junction
            last = spec["junctions"][-1]["name"]
            spec["junctions"].append({"name": "jfc", "pn_bar": 1.0, "tfluid_k": 300.0, "height_m": 0.0, "in_service": True})
            spec["elements"].append({"kind": "flow_control", "name": "fc_bridge", "from_junction": "j1", "to_junction": "jfc",
                                     "controlled_mdot_kg_per_s": 0.001, "control_active": True, "in_service": True})
        if cls == "pc":
            ctrl = {e["controlled_junction"] for e in spec["elements"] if e["kind"] == "press_control"}
            spec["elements"] = [e for e in spec["elements"] if not (e["kind"] == "ext_grid" and e["junction"] in ctrl)]
            spec["elements"].sort(key=lambda e: e["kind"] == "press_control")
    # consistent outage pattern
    for e in spec["elements"]:
        r = rng.random()
        if e["kind"] in ("pipe", "pump", "compressor", "heat_exchanger", "heat_consumer", "flow_control") and r < 0.1:
            e["in_service"] = False
        elif e["kind"] == "valve" and r < 0.3:
            e["opened"] = False
        elif e["kind"] == "ext_grid" and r < 0.12 and sum(1 for x in spec["elements"] if x["kind"] == "ext_grid" and x.get("in_service", True)) > 1:
            e["in_service"] = False
    if rng.random() < 0.3:
        jn = spec["junctions"][int(rng.integers(1, len(spec["junctions"])))]["name"]
        refs = ("from_junction", "to_junction", "junction", "return_junction", "flow_junction", "controlled_junction")
        touching = [e for e in spec["elements"] if any(e.get(r) == jn for r in refs) or (e["kind"] == "valve" and e["et"] == "ju" and e["element"] == jn)]
        if not any(e["kind"] in ("valve", "press_control", "circ_pump_mass", "circ_pump_pressure") for e in touching):
            for j in spec["junctions"]:
                if j["name"] == jn:
                    j["in_service"] = False
            for e in touching:
                e["in_service"] = False
    netgen.relabel(spec, rng, str(rng.choice(["contiguous", "shuffled", "gaps"])))
    return spec, rng


def expected_edges(spec, kw):
    """Multiset of (table, name, frozenset(junction names)) for given include_/respect_status_ arguments."""
    closed_pi = {e["element"] for e in spec["elements"] if e["kind"] == "valve" and e["et"] == "pi" and not e.get("opened", True)}
    jin = {j["name"]: j.get("in_service", True) for j in spec["junctions"]}
    edges = []
    for e in spec["elements"]:
        t = netgen.table_of(e["kind"])
        if t not in GRAPH_KW:
            continue
        g = GRAPH_KW[t]
        inc = kw.get("include_" + g, True)
        if inc is False or (isinstance(inc, (list, tuple, set)) and e["name"] not in kw.get("_names_" + g, ())):
            continue
        respect = kw.get("respect_status_" + g, True)
        if t == "valve":
            if e["et"] == "pi":
                continue
            a, b = e["junction"], e["element"]
            active = e.get("opened", True)
        else:
            from pvmon.monitors import FROM_TO
            fc, tc = FROM_TO[t]
            a, b = e[fc], e[tc]
            active = e.get("in_service", True)
        if respect and not active:
            continue
        if t == "pipe" and kw.get("respect_status_valves", True) and e["name"] in closed_pi:
            continue      # a closed junction-pipe valve removes its pipe's edge (governed by respect_status_valves)
        if kw.get("respect_status_junctions", True) and not (jin[a] and jin[b]):
            continue
        edges.append((t, e["name"], frozenset((a, b))))
    return edges


def dijkstra(nodes, edges, src):
    adj = {n: [] for n in nodes}
    for a, b, w in edges:
        adj[a].append((b, w))
        adj[b].append((a, w))
    dist = {src: 0.0}
    pq = [(0.0, src)]
    while pq:
        d, n = heapq.heappop(pq)
        if d > dist.get(n, math.inf):
            continue
        for m, w in adj[n]:
            nd = d + w
            if nd < dist.get(m, math.inf):
                dist[m] = nd
                heapq.heappush(pq, (nd, m))
    return dist


RELAX = ["circ_pump_not_supply", "t_grid_supply", "fc_connects", "pc_undirected"]
RELAX_TAG = {"circ_pump_not_supply": "circ_pump_not_supply", "t_grid_supply": "t_grid_counted_as_supply",
             "fc_connects": "graph_connects_through_flow_controller", "pc_undirected": "press_control_direction_ignored"}


def run_case(case, ctx):
    import pandapipes as pp
    import pandapipes.topology as top
    import networkx as nx
    spec, rng = make(case)
    obs = Obs()
    obs.count("nets_class_" + case["cls"])
    if rng.random() < 0.15:
        # nets that hold only the component tables of the elements created (no default tables)
        spec["sector"] = "None"
        obs.count("nets_of_sector_None")
        if not any(e["kind"] == "valve" for e in spec["elements"]):
            obs.count("nets_without_valve_table")
    net = netgen.build(spec)
    jname = net.junction["name"].to_dict()
    names = lambda s: {jname[x] for x in s}
    desc = {"cls": case["cls"]}
    oos = {j["name"] for j in spec["junctions"] if not j.get("in_service", True)}
    # ---- unsupplied junctions vs the solver's NaN pattern
    try:
        u_tool = names(top.unsupplied_junctions(net))
    except Exception as e:
        obs.violate("unsupplied_junctions_raises", "unsupplied_junctions raised %s: %s" % (type(e).__name__, str(e)[:100]), **desc)
        u_tool = None
    out, _ = run_pipeflow(net, dict(iter=100, mode="hydraulics"))
    reached = reach.supplied_junctions(spec)
    if out == "ok":
        nan_set = {jname[i] for i in net.res_junction.index[net.res_junction.p_bar.isna()]}
        model_nan = set(jname.values()) - reached
        if nan_set != model_nan:
            obs.count("solver_pattern_differs_from_model_not_judged_here")   # C04's business
    elif not reached:
        nan_set = set(jname.values())
    else:
        nan_set = None
    if u_tool is not None and nan_set is not None:
        obs.count("unsupplied_vs_solver_checks")
        if u_tool or oos:
            obs.count("unsupplied_sets_nonempty")
        got = u_tool | oos
        if got != nan_set:
            # is the difference exactly what the tool's documented-by-code semantics give? find the smallest explaining relaxation set
            expl = None
            for k in range(1, 5):
                for combo in itertools.combinations(RELAX, k):
                    r = reach.supplied_junctions(spec, relax=combo)
                    if (set(jname.values()) - r) | oos == got:
                        expl = combo
                        break
                if expl:
                    break
            if expl:
                for r in expl:
                    obs.violate(RELAX_TAG[r], "unsupplied_junctions (+ out-of-service) = %s, junctions without pressure = %s; explained by the tool's "
                                "rule '%s'" % (sorted(got), sorted(nan_set), r), relaxations=list(expl), **desc)
            else:
                obs.violate("unsupplied_junctions_mismatch", "unsupplied_junctions (+ out-of-service) = %s but junctions without pressure = %s"
                            % (sorted(got), sorted(nan_set)), **desc)
    # ---- components vs islands (statement adjacency, undirected)
    try:
        mg = top.create_nxgraph(net)
        comps = {frozenset(names(c)) for c in nx.connected_components(mg)}
        obs.count("component_checks")

        def islands(relax):
            rest = set(jname.values()) - oos
            out_ = set()
            while rest:
                seed_j = next(iter(rest))
                sp = dict(spec, elements=[e for e in spec["elements"] if e["kind"] not in ("ext_grid", "circ_pump_mass", "circ_pump_pressure")]
                          + [dict(e) for e in spec["elements"] if e["kind"] in ("circ_pump_mass", "circ_pump_pressure")]
                          + [{"kind": "ext_grid", "name": "_seed", "junction": seed_j, "type": "p", "in_service": True}])
                comp = reach.supplied_junctions(sp, relax=set(relax) | {"pc_undirected", "circ_pump_not_supply"}) & rest
                comp.add(seed_j)
                out_.add(frozenset(comp))
                rest -= comp
            return out_
        want = islands(())
        if comps != want:
            if comps == islands(("fc_connects",)):
                obs.violate("graph_connects_through_flow_controller", "graph components %s differ from the hydraulic islands %s: active flow "
                            "controllers / heat consumers are edges of the default graph" % (sorted(map(sorted, comps)), sorted(map(sorted, want))), **desc)
            else:
                obs.violate("graph_components_differ", "graph components %s, hydraulic islands %s" % (sorted(map(sorted, comps)), sorted(map(sorted, want))), **desc)
    except Exception as e:
        obs.violate("create_nxgraph_raises", "create_nxgraph raised %s: %s" % (type(e).__name__, str(e)[:100]), **desc)
    # ---- edge sets for random argument combinations
    for trial in range(6):
        kw = {}
        for t, g in GRAPH_KW.items():
            if g == "heat_exchangers":
                continue
            if rng.random() < 0.25:
                kw["include_" + g] = False
            if rng.random() < 0.25:
                kw["respect_status_" + g] = False
        if rng.random() < 0.2:
            kw["respect_status_junctions"] = False
        # include_<x> may also be a list of element indices (documented): a random subset of the pipes / valves
        for t, g in (("pipe", "pipes"), ("valve", "valves")):
            if t in net and len(net[t]) and rng.random() < 0.3 and "include_" + g not in kw:
                sub = [int(i) for i in net[t].index[rng.random(len(net[t])) < 0.6]]
                if sub:
                    kw["include_" + g] = sub
                    kw["_names_" + g] = {net[t].at[i, "name"] for i in sub}
                    obs.count("edge_set_checks_with_index_list")
        multi = bool(rng.random() < 0.7)
        try:
            g_ = top.create_nxgraph(net, multi=multi, **{k: v for k, v in kw.items() if not k.startswith("_")})
        except Exception as e:
            obs.violate("create_nxgraph_raises", "create_nxgraph(%s) raised %s: %s" % ({k: v for k, v in kw.items() if not k.startswith("_")}, type(e).__name__, str(e)[:100]), **desc)
            continue
        want = expected_edges(spec, kw)
        ename = {t: net[t]["name"].to_dict() for t in GRAPH_KW if t in net and len(net[t])}
        if multi:
            got = sorted((k[0], ename[k[0]][k[1]], tuple(sorted((jname.get(a, "?%s" % a), jname.get(b, "?%s" % b))))) for a, b, k in g_.edges(keys=True))
            exp = sorted((t, n, tuple(sorted(fs)) if len(fs) == 2 else tuple(sorted(fs)) * 2) for t, n, fs in want)
            obs.count("edge_set_checks")
        else:
            got = sorted({tuple(sorted((jname.get(a, "?%s" % a), jname.get(b, "?%s" % b)))) for a, b in g_.edges()})
            exp = sorted({tuple(sorted(fs)) if len(fs) == 2 else tuple(sorted(fs)) * 2 for t, n, fs in want})
            obs.count("edge_set_checks_simple_graph")
        if any(e["kind"] == "valve" and e["et"] == "pi" for e in spec["elements"]):
            obs.count("pi_valve_edge_checks")
            if any(e["kind"] == "valve" and e["et"] == "pi" and not e.get("opened", True) for e in spec["elements"]):
                obs.count("closed_pi_valve_checks")
        if got != exp:
            extra = [x for x in got if x not in exp][:4]
            missing = [x for x in exp if x not in got][:4]
            pi = any(str(x).find("?") >= 0 for x in extra) or any(x[0] == "valve" for x in extra if multi)
            kwp = {k: v for k, v in kw.items() if not k.startswith("_")}
            obs.violate("pi_valve_graph_edge" if pi else "graph_edges_differ", "create_nxgraph(multi=%s, %s): unexpected edges %s, missing edges %s"
                        % (multi, kwp, extra, missing), kwargs=kwp, **desc)
        nodes_want = set(jname.values()) - (oos if kw.get("respect_status_junctions", True) else set())
        nodes_got = {jname.get(n, "?%s" % n) for n in g_.nodes()}
        if nodes_got != nodes_want:
            obs.violate("graph_nodes_differ", "create_nxgraph(%s): nodes %s, expected %s" % (kw, sorted(nodes_got ^ nodes_want)[:6], "junction set"), **desc)
    # ---- distances
    src = spec["junctions"][0]["name"]
    if src not in oos:
        src_label = [i for i, n in jname.items() if n == src][0]
        try:
            d_tool = top.calc_distance_to_junction(net, src_label)
            edges = [(tuple(fs)[0], tuple(fs)[-1], 0.0) for t, n, fs in expected_edges(spec, {})]
            lens = {e["name"]: e["length_km"] for e in spec["elements"] if e["kind"] in ("pipe", "pipe_std")}
            edges = [(tuple(fs)[0], tuple(fs)[-1], lens.get(n, 0.0) if t == "pipe" else 0.0) for t, n, fs in expected_edges(spec, {})]
            d_ref = dijkstra(set(jname.values()) - oos, edges, src)
            obs.count("distance_checks")
            got = {jname[k]: float(v) for k, v in d_tool.items()}
            if set(got) != set(d_ref) or any(abs(got[k] - d_ref[k]) > 1e-9 for k in got):
                bad = [(k, got.get(k), d_ref.get(k)) for k in set(got) | set(d_ref) if abs(got.get(k, -1) - d_ref.get(k, -2)) > 1e-9][:4]
                obs.violate("distances_differ", "calc_distance_to_junction from %s: %s (tool, own Dijkstra)" % (src, bad), **desc)
        except Exception as e:
            obs.violate("distance_function_raises", "calc_distance_to_junction raised %s: %s" % (type(e).__name__, str(e)[:100]), **desc)
    n = obs.counters.get("edge_set_checks", 0) + obs.counters.get("edge_set_checks_simple_graph", 0)
    rec = {"nontrivial": n >= 1, "sample": {"case": case, "net": netgen.spec_summary(spec), "out_of_service_junctions": sorted(oos),
                                            "unsupplied_reported": sorted(u_tool) if u_tool is not None else None}}
    rec.update(obs.record())
    return rec
