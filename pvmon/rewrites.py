"""Rewrites of a spec into a physically equivalent spec (C09) - each returns (new_spec, mapping info)."""
import copy

from pvmon.netgen import table_of

SYMMETRIC = ("pipe", "pipe_std", "heat_exchanger")


def reverse_branches(spec, rng, prob=0.5):
    spec = copy.deepcopy(spec)
    rev = set()
    for e in spec["elements"]:
        if e["kind"] in SYMMETRIC and rng.random() < prob:
            e["from_junction"], e["to_junction"] = e["to_junction"], e["from_junction"]
            rev.add(e["name"])
        elif e["kind"] == "valve" and e["et"] == "ju" and rng.random() < prob:
            e["junction"], e["element"] = e["element"], e["junction"]
            rev.add(e["name"])
    return spec, rev


def split_pipes(spec, rng=None, only=None):
    """Every multi-section pipe (without a pi valve attached) becomes n single-section pipes in series;
    the new junctions get linearly interpolated height, start pressure and start temperature."""
    spec = copy.deepcopy(spec)
    jmap = {j["name"]: j for j in spec["junctions"]}
    has_pi = {e["element"] for e in spec["elements"] if e["kind"] == "valve" and e["et"] == "pi"}
    new_els, ends = [], {}
    for e in spec["elements"]:
        n = int(e.get("sections", 1)) if e["kind"] in ("pipe", "pipe_std") else 1
        if n <= 1 or e["name"] in has_pi or (only is not None and e["name"] not in only):
            new_els.append(e)
            continue
        a, b = jmap[e["from_junction"]], jmap[e["to_junction"]]
        prev = e["from_junction"]
        names = []
        for k in range(n):
            if k < n - 1:
                f = (k + 1) / n
                jn = "%s__n%d" % (e["name"], k)
                spec["junctions"].append({"name": jn, "pn_bar": a["pn_bar"] + (b["pn_bar"] - a["pn_bar"]) * f,
                                          "tfluid_k": a["tfluid_k"] + (b["tfluid_k"] - a["tfluid_k"]) * f,
                                          "height_m": a["height_m"] + (b["height_m"] - a["height_m"]) * f,
                                          "in_service": True, "index": None})
                nxt = jn
            else:
                nxt = e["to_junction"]
            s = dict(e)
            s.update(name="%s__s%d" % (e["name"], k), from_junction=prev, to_junction=nxt,
                     length_km=e["length_km"] / n, sections=1, loss_coefficient=e.get("loss_coefficient", 0.0) / n,
                     index=None)
            names.append(s["name"])
            new_els.append(s)
            prev = nxt
        ends[e["name"]] = names
    spec["elements"] = new_els
    # labels are left to pandapipes for the new elements: drop explicit labels of the pipe table
    for e in spec["elements"]:
        if table_of(e["kind"]) == "pipe":
            e["index"] = None
    spec.pop("row_order", None)
    return spec, ends


def merge_sections(spec):
    spec = copy.deepcopy(spec)
    changed = set()
    for e in spec["elements"]:
        if e["kind"] in ("pipe", "pipe_std") and int(e.get("sections", 1)) > 1:
            e["sections"] = 1
            changed.add(e["name"])
    return spec, changed


def uniform_temperature(spec, t=None):
    spec = copy.deepcopy(spec)
    t = t or spec["junctions"][0]["tfluid_k"]
    for j in spec["junctions"]:
        j["tfluid_k"] = t
    for e in spec["elements"]:
        if e["kind"] == "ext_grid":
            e["t_k"] = t
    return spec


def aggregate_loads(spec, rng):
    """Loads on one junction -> one sink with the summed scaled flow; sources -> negative sinks."""
    spec = copy.deepcopy(spec)
    per_j = {}
    keep = []
    for e in spec["elements"]:
        if e["kind"] in ("sink", "source", "mass_storage") and e.get("in_service", True):
            m = e["mdot_kg_per_s"] * e.get("scaling", 1.0) * (-1.0 if e["kind"] == "source" else 1.0)
            per_j.setdefault(e["junction"], []).append(m)
        elif e["kind"] in ("sink", "source", "mass_storage"):
            continue  # out of service: absent
        else:
            keep.append(e)
    k = 0
    for j, ms in per_j.items():
        total = sum(ms)
        if rng.random() < 0.5:
            keep.append({"kind": "sink", "name": "agg%d" % k, "junction": j, "mdot_kg_per_s": total, "scaling": 1.0,
                         "in_service": True})
        else:   # split into two with a scaling factor instead
            keep.append({"kind": "sink", "name": "agg%da" % k, "junction": j, "mdot_kg_per_s": total * 0.3 / 0.5,
                         "scaling": 0.5, "in_service": True})
            keep.append({"kind": "source", "name": "agg%db" % k, "junction": j, "mdot_kg_per_s": -total * 0.7,
                         "scaling": 1.0, "in_service": True})
        k += 1
    spec["elements"] = keep
    spec.pop("row_order", None)
    return spec


def drop_disabled(spec):
    """Out-of-service branch/node elements and closed valves are removed."""
    spec = copy.deepcopy(spec)
    gone = set()
    keep = []
    for e in spec["elements"]:
        if e.get("in_service", True) is False or (e["kind"] == "valve" and e.get("opened") is False and e["et"] == "ju"):
            gone.add(e["name"])
        else:
            keep.append(e)
    # a pi valve on a removed pipe goes as well
    for e in keep:
        if e["kind"] == "valve" and e["et"] == "pi" and e["element"] in gone:
            gone.add(e["name"])
    keep = [e for e in keep if e["name"] not in gone]
    spec["elements"] = keep
    spec.pop("row_order", None)
    return spec, gone


def shift_pressures(spec, c):
    spec = copy.deepcopy(spec)
    for e in spec["elements"]:
        if e["kind"] == "ext_grid":
            e["p_bar"] += c
        elif e["kind"] in ("circ_pump_mass", "circ_pump_pressure"):
            e["p_flow_bar"] += c
        elif e["kind"] == "press_control":
            e["controlled_p_bar"] += c
    for j in spec["junctions"]:
        j["pn_bar"] += c
    return spec
