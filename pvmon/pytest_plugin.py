"""pytest plugin: run the repository's own test-suite with the execution-local monitors switched on.

    PANDAPIPES_VERIF=1 VERIF_PLUGIN_PROP=C01 VERIF_PLUGIN_OUT=/path/out.jsonl pytest -p pvmon.pytest_plugin ...

Every pipeflow call made by any test is observed through hook H1 (exit event) / H2 (Newton trace) and fed
to the monitor of the selected property.  One JSON line per observed call is appended to the output file.
"""
import json
import os

from pvmon.core import dumps

_STATE = {"prop": None, "out": None, "trace": [], "enter_fp": [], "test": None}


def _opts(net):
    o = dict(net["_options"]) if "_options" in net else {}
    return o


def _sink(ev, p):
    prop = _STATE["prop"]
    if ev == "enter":
        _STATE["trace"] = []
        if prop == "C12":
            from pvmon.fingerprint import fingerprint
            _STATE["enter_fp"].append(fingerprint(p["net"], per_column=True))
        return
    if ev in ("nr_iter", "nr_end"):
        _STATE["trace"].append((ev, {k: v for k, v in p.items() if k != "net"}))
        return
    if ev != "exit":
        return
    from pvmon.monitors import Obs, mon_c01, mon_c02, mon_c03, mon_c10, mon_c11
    net = p["net"]
    obs = Obs()
    opts = _opts(net)
    mode = opts.get("mode", "hydraulics")
    ok = p["exc"] is None
    try:
        if prop == "C12":
            from pvmon.fingerprint import fingerprint, diff
            before = _STATE["enter_fp"].pop() if _STATE["enter_fp"] else None
            if before is not None:
                ch = diff(before, fingerprint(net, per_column=True))
                obs.count("purity_checks_on_return" if ok else "purity_checks_on_exception")
                if ch:
                    obs.violate("pipeflow_mutates_input", "pipeflow changed user entries %s" % ch, changed=ch)
        elif prop == "C05":
            from pvmon.props.c05 import check_trace, tables_hold_numbers
            from pandapipes.pf.pipeflow_setup import PipeflowNotConverged
            check_trace(obs, list(_STATE["trace"]), ok, opts, {"test": _STATE["test"]})
            if ok:
                obs.count("returns_checked")
                if not bool(net.converged):
                    obs.violate("returned_not_marked_converged", "pipeflow returned but net.converged is %r" % net.converged)
            elif isinstance(p["exc"], PipeflowNotConverged):
                obs.count("failures_checked")
                left = tables_hold_numbers(net)
                if left or bool(net.converged):
                    obs.violate("failed_run_leaves_results", "after PipeflowNotConverged: tables with numbers %s, converged=%s" % (left, net.converged))
        elif ok and not opts.get("transient", False):
            hyd = mode in ("hydraulics", "sequential", "bidirectional")
            if prop == "C01" and hyd:
                alpha = float(opts.get("alpha", 1.0)) if opts.get("nonlinear_method") == "constant" else 1.0
                mon_c01(net, obs, final_alpha=alpha, tol_m=opts.get("tol_m", 1e-5))
            elif prop == "C02" and mode in ("hydraulics", "bidirectional"):
                # in sequential mode the hydraulic stage ran at the start temperatures, not at the reported ones
                mon_c02(net, obs, opts)
            elif prop == "C03" and hyd:
                mon_c03(net, obs, opts)
            elif prop == "C10" and mode in ("sequential", "bidirectional"):
                mon_c10(net, obs, opts)
            elif prop == "C11" and mode in ("sequential", "bidirectional"):
                mon_c11(net, obs, opts, mode)
    except Exception as e:   # a monitor crash on an exotic test net is recorded, never raised into the test
        import traceback
        fr = traceback.extract_tb(e.__traceback__)[-1]
        obs.count("monitor_error_%s_at_%s_%d" % (type(e).__name__, os.path.basename(fr.filename), fr.lineno))
    rec = obs.record()
    rec["test"] = _STATE["test"]
    rec["mode"] = mode
    with open(_STATE["out"], "a") as f:
        f.write(dumps(rec) + "\n")


def pytest_configure(config):
    prop = os.environ.get("VERIF_PLUGIN_PROP")
    out = os.environ.get("VERIF_PLUGIN_OUT")
    if not prop or not out:
        return
    import pandapipes._verif as v
    if not v.ENABLED:
        raise RuntimeError("PANDAPIPES_VERIF=1 is required for the monitor plugin")
    _STATE.update(prop=prop, out=out)
    v.register(_sink)


def pytest_runtest_setup(item):
    _STATE["test"] = item.nodeid
