"""Case specs (plain JSON-able data), the builder that turns a spec into a pandapipes net through
the public create_* API only, and seeded generators of hydraulic (gas / water) networks.

A spec is
    {"fluid": str, "junctions": [ {name, pn_bar, tfluid_k, height_m, in_service, index}, ... ],
     "elements": [ {"kind": <kind>, "name": str, "index": int|None, <create arguments>...}, ... ],
     "row_order": {table: [names...]},           # optional: row permutation applied after creation
     "bulk": bool}                              # optional: use the bulk create functions
Junctions are referenced by *name* inside the spec, so a relabelling only touches "index" fields.
Element identity across rewrites is the "name" column.
"""
import copy

import numpy as np

# kind -> (table, create function name, reference arguments that name junctions)
KINDS = {
    "pipe": ("pipe", "create_pipe_from_parameters", ("from_junction", "to_junction")),
    "pipe_std": ("pipe", "create_pipe", ("from_junction", "to_junction")),
    "valve": ("valve", "create_valve", ("junction",)),
    "pump": ("pump", "create_pump", ("from_junction", "to_junction")),
    "compressor": ("compressor", "create_compressor", ("from_junction", "to_junction")),
    "flow_control": ("flow_control", "create_flow_control", ("from_junction", "to_junction")),
    "press_control": ("press_control", "create_pressure_control",
                      ("from_junction", "to_junction", "controlled_junction")),
    "heat_exchanger": ("heat_exchanger", "create_heat_exchanger", ("from_junction", "to_junction")),
    "heat_consumer": ("heat_consumer", "create_heat_consumer", ("from_junction", "to_junction")),
    "circ_pump_mass": ("circ_pump_mass", "create_circ_pump_const_mass_flow",
                       ("return_junction", "flow_junction")),
    "circ_pump_pressure": ("circ_pump_pressure", "create_circ_pump_const_pressure",
                           ("return_junction", "flow_junction")),
    "sink": ("sink", "create_sink", ("junction",)),
    "source": ("source", "create_source", ("junction",)),
    "mass_storage": ("mass_storage", "create_mass_storage", ("junction",)),
    "ext_grid": ("ext_grid", "create_ext_grid", ("junction",)),
}
BRANCH_TABLES = ["pipe", "valve", "pump", "compressor", "flow_control", "press_control",
                 "heat_exchanger", "heat_consumer", "circ_pump_mass", "circ_pump_pressure"]
NODE_ELEMENT_TABLES = ["sink", "source", "mass_storage", "ext_grid"]
ALL_TABLES = ["junction"] + BRANCH_TABLES + NODE_ELEMENT_TABLES

TIGHT = dict(iter=200, tol_p=1e-10, tol_m=1e-10, tol_res=1e-9, tol_T=1e-9)


def table_of(kind):
    return KINDS[kind][0]


def build(spec, pp=None):
    """Create the net described by *spec* with the public API and return it."""
    if pp is None:
        import pandapipes as pp
    kw = {}
    if spec.get("sector") is not None:
        from pandapipes.pandapipes_net import Sector
        kw["sector"] = Sector(spec["sector"]) if not isinstance(spec["sector"], Sector) else spec["sector"]
    net = pp.create_empty_network(fluid=spec["fluid"], **kw)
    jidx = {}
    for j in spec["junctions"]:
        args = {k: v for k, v in j.items() if k not in ("index",)}
        i = pp.create_junction(net, index=j.get("index"), **args)
        jidx[j["name"]] = i
    pidx = {}
    for e in spec["elements"]:
        table, fname, refs = KINDS[e["kind"]]
        args = {k: v for k, v in e.items() if k not in ("kind", "index")}
        for r in refs:
            args[r] = jidx[args[r]]
        if e["kind"] == "valve":
            args["element"] = jidx[args["element"]] if args["et"] == "ju" else pidx[args["element"]]
        i = getattr(pp, fname)(net, index=e.get("index"), **args)
        if table == "pipe":
            pidx[e["name"]] = i
    for table, names in (spec.get("row_order") or {}).items():
        if table in net and len(net[table]):
            pos = {n: k for k, n in enumerate(net[table]["name"].values)}
            order = [pos[n] for n in names if n in pos]
            if len(order) == len(net[table]):
                net[table] = net[table].iloc[order]
    return net


def by_name(net, table, res=False):
    """(result) table of *table* indexed by element name."""
    if table not in net or (res and "res_" + table not in net):
        return None
    df = net["res_" + table] if res else net[table]
    names = net[table]["name"].reindex(df.index)
    out = df.copy()
    out.index = names.values
    return out


def results_by_name(net, tables=None):
    out = {}
    for t in tables or ALL_TABLES:
        if t in net and "res_" + t in net and len(net[t]):
            out[t] = by_name(net, t, res=True)
    return out


# ------------------------------------------------------------------------------------------------
# random hydraulic nets
# ------------------------------------------------------------------------------------------------
GASES = ["lgas", "hgas", "hydrogen", "methane", "biomethane_pure", "biomethane_treated", "air"]
LIQUIDS = ["water"]
PUMP_TYPES = ["P1", "P2", "P3"]


def gen_hydraulic(rng, fluid=None, n=None, features=(), label_scheme="contiguous", tfluid_uniform=False,
                  heights=True, max_sections=3, oos=False, qscale=1.0):
    """Random supplied network: spanning tree + chords, loads, 1..3 ext grids.

    *features* may contain: "valves", "pi_valves", "pump", "compressor", "flow_control",
    "press_control", "heat_exchanger", "mass_storage", "multi_grid", "islands", "closed", "std_pipes"
    """
    fluid = fluid or (rng.choice(LIQUIDS + GASES[:3]))
    gas = fluid != "water"
    n = int(n or rng.integers(4, 16))
    feats = set(features)
    h = rng.uniform(0, 60, n) if heights else np.zeros(n)
    t0 = float(rng.uniform(283, 323))
    js = []
    for i in range(n):
        js.append({"name": "j%d" % i, "pn_bar": float(rng.uniform(1, 8)) if not gas else float(rng.uniform(0.9, 2)),
                   "tfluid_k": t0 if tfluid_uniform else float(rng.uniform(283, 323)),
                   "height_m": float(h[i]), "in_service": True})
    els = []
    cnt = {}

    def add(kind, **kw):
        k = cnt.get(kind, 0)
        cnt[kind] = k + 1
        e = {"kind": kind, "name": "%s%d" % (kind, k)}
        e.update(kw)
        els.append(e)
        return e

    def rpipe(a, b, chord=False):
        d = float(rng.uniform(0.08, 0.6))
        kw = dict(from_junction="j%d" % a, to_junction="j%d" % b, length_km=float(rng.uniform(0.05, 0.4)),
                  inner_diameter_mm=d * 1000, k_mm=float(rng.uniform(0.01, 0.5)),
                  loss_coefficient=float(rng.uniform(0, 3)) if rng.random() < 0.5 else 0.0,
                  sections=int(rng.integers(1, max_sections + 1)), in_service=True)
        if "std_pipes" in feats and rng.random() < 0.3:
            return add("pipe_std", from_junction=kw["from_junction"], to_junction=kw["to_junction"],
                       std_type=str(rng.choice(["80_GGG", "125_ST<16", "200_ST<16", "300_GGG", "160_PE_100_SDR_11"])),
                       length_km=kw["length_km"], loss_coefficient=kw["loss_coefficient"],
                       sections=kw["sections"], k_mm=kw["k_mm"], in_service=True, text_k=293.15)
        return add("pipe", **kw)

    p_grid = float(rng.uniform(5, 10)) if not gas else float(rng.uniform(1.5, 3.0))
    add("ext_grid", junction="j0", p_bar=p_grid, t_k=float(rng.uniform(283, 323)), in_service=True)
    special_budget = {"pump": 3 if "multi_pump" in feats else 1, "compressor": 2 if "multi_pump" in feats else 1,
                      "press_control": 1, "heat_exchanger": 2}
    for i in range(1, n):
        k = int(rng.integers(0, i))
        r = rng.random()
        done = False
        for feat, prob in (("pump", 0.15), ("compressor", 0.15), ("press_control", 0.15),
                           ("heat_exchanger", 0.15), ("valves", 0.12)):
            if feat in feats and not done and r < prob and special_budget.get(feat, 99) > 0:
                special_budget[feat] = special_budget.get(feat, 99) - 1
                a, b = "j%d" % k, "j%d" % i
                if feat == "pump" and not gas:
                    add("pump", from_junction=a, to_junction=b, std_type=str(rng.choice(PUMP_TYPES)), in_service=True)
                elif feat == "compressor" and gas:
                    add("compressor", from_junction=a, to_junction=b, pressure_ratio=float(rng.uniform(1.05, 1.6)),
                        in_service=True)
                elif feat == "press_control":
                    add("press_control", from_junction=a, to_junction=b, controlled_junction=b,
                        controlled_p_bar=float(p_grid * rng.uniform(0.6, 0.95)), control_active=True,
                        loss_coefficient=0.0, in_service=True)
                elif feat == "heat_exchanger":
                    add("heat_exchanger", from_junction=a, to_junction=b, qext_w=float(rng.uniform(-2e4, 2e4)),
                        inner_diameter_mm=float(rng.uniform(80, 400)), loss_coefficient=float(rng.uniform(0, 5)),
                        in_service=True)
                elif feat == "valves":
                    add("valve", junction=a, element=b, et="ju", inner_diameter_mm=float(rng.uniform(80, 400)),
                        opened=True, loss_coefficient=float(rng.uniform(0, 5)))
                else:
                    continue
                done = True
            r = rng.random()
        if not done:
            rpipe(k, i)
    nchords = int(rng.integers(0, max(2, n // 2)))
    for _ in range(nchords):
        a, b = (int(x) for x in rng.choice(n, 2, replace=False))
        r = rng.random()
        if "valves" in feats and r < 0.25:
            add("valve", junction="j%d" % a, element="j%d" % b, et="ju",
                inner_diameter_mm=float(rng.uniform(80, 400)), opened=bool(rng.random() < 0.6),
                loss_coefficient=float(rng.uniform(0, 5)))
        elif "flow_control" in feats and r < 0.45 and cnt.get("flow_control", 0) < 2:
            add("flow_control", from_junction="j%d" % a, to_junction="j%d" % b,
                controlled_mdot_kg_per_s=float(rng.uniform(0.0, 0.4 if not gas else 0.004)) * qscale,
                control_active=bool(rng.random() < 0.75), in_service=True)
        else:
            rpipe(a, b, chord=True)
    if "pi_valves" in feats:
        pipes = [e for e in els if e["kind"] in ("pipe", "pipe_std")]
        for e in pipes:
            if rng.random() < 0.25:
                end = e["from_junction"] if rng.random() < 0.5 else e["to_junction"]
                add("valve", junction=end, element=e["name"], et="pi",
                    inner_diameter_mm=float(rng.uniform(80, 400)),
                    opened=bool(rng.random() < 0.8) if "closed" in feats else True,
                    loss_coefficient=float(rng.uniform(0, 5)))
    qmax = (0.6 if not gas else 0.008) * qscale
    for i in range(1, n):
        if rng.random() < 0.6:
            add("sink", junction="j%d" % i, mdot_kg_per_s=float(rng.uniform(0, qmax)),
                scaling=float(rng.choice([1.0, 1.0, 0.5, 2.0])), in_service=True)
        if rng.random() < 0.25:
            add("sink", junction="j%d" % i, mdot_kg_per_s=float(rng.uniform(0, qmax)), scaling=1.0, in_service=True)
        if rng.random() < 0.2:
            add("source", junction="j%d" % i, mdot_kg_per_s=float(rng.uniform(0, qmax * 0.6)),
                scaling=float(rng.choice([1.0, 0.7])), in_service=True)
        if "mass_storage" in feats and rng.random() < 0.15:
            add("mass_storage", junction="j%d" % i, mdot_kg_per_s=float(rng.uniform(-qmax / 2, qmax / 2)),
                scaling=float(rng.choice([1.0, 1.5])), in_service=True)
    if "multi_grid" in feats:
        r = rng.random()
        if r < 0.5:
            add("ext_grid", junction="j0", p_bar=p_grid * float(rng.uniform(0.9, 1.1)), t_k=300.0, in_service=True)
        if r > 0.3 and n > 3:
            add("ext_grid", junction="j%d" % int(rng.integers(1, n)), p_bar=p_grid * float(rng.uniform(0.93, 1.0)),
                t_k=305.0, in_service=True)
        if rng.random() < 0.3:
            # a grid that takes no part (out of service, or temperature only) beside the running one
            if rng.random() < 0.6:
                add("ext_grid", junction="j0", p_bar=p_grid * 2.0, t_k=320.0, in_service=False)
            else:
                add("ext_grid", junction="j0", p_bar=p_grid * 2.0, type="t", in_service=True,
                    t_k=[e["t_k"] for e in els if e["kind"] == "ext_grid" and e["junction"] == "j0"][0])
    if "islands" in feats:
        # an unsupplied island of 2-3 junctions with a load
        m = int(rng.integers(2, 4))
        base = n
        for i in range(m):
            js.append({"name": "j%d" % (base + i), "pn_bar": 1.0, "tfluid_k": 300.0, "height_m": 0.0, "in_service": True})
            if i:
                rpipe(base + i - 1, base + i)
        add("sink", junction="j%d" % (base + m - 1), mdot_kg_per_s=0.1 * qmax, scaling=1.0, in_service=True)
    if oos or "oos" in feats:
        for e in els:
            if e["kind"] in ("sink", "source", "mass_storage") and rng.random() < 0.2:
                e["in_service"] = False
        chords = [e for e in els if e["kind"] == "pipe"][n - 1:]
        for e in chords:
            if rng.random() < 0.3:
                e["in_service"] = False
    spec = {"fluid": str(fluid), "junctions": js, "elements": els}
    relabel(spec, rng, label_scheme)
    return spec


def relabel(spec, rng, scheme="contiguous", tables=None):
    """Assign index labels in place according to *scheme*."""
    def labels(k, scheme):
        if scheme == "contiguous" or k == 0:
            return list(range(k))
        if scheme == "shuffled":
            return [int(x) for x in rng.permutation(k)]
        if scheme == "gaps":
            return [int(x) for x in rng.permutation(np.arange(k) * 7 + 3)]
        if scheme == "large":
            return [int(x) for x in rng.choice(np.arange(100000, 100000 + 50 * k), k, replace=False)]
        if scheme == "mixed":
            lab = rng.permutation(np.arange(k) * 3 + 1)
            lab[: max(1, k // 4)] += 200000
            return [int(x) for x in rng.permutation(lab)]
        raise ValueError(scheme)

    for j, lab in zip(spec["junctions"], labels(len(spec["junctions"]), scheme)):
        j["index"] = lab
    groups = {}
    for e in spec["elements"]:
        groups.setdefault(table_of(e["kind"]), []).append(e)
    for t, es in groups.items():
        if tables is not None and t not in tables:
            continue
        for e, lab in zip(es, labels(len(es), scheme)):
            e["index"] = lab
    return spec


def permute_rows(spec, rng):
    """Random row order of every table (applied after creation)."""
    spec = copy.deepcopy(spec)
    ro = {"junction": [j["name"] for j in spec["junctions"]]}
    for e in spec["elements"]:
        ro.setdefault(table_of(e["kind"]), []).append(e["name"])
    spec["row_order"] = {t: [names[i] for i in rng.permutation(len(names))] for t, names in ro.items()}
    return spec


def shuffle_creation(spec, rng):
    """Random creation order (pipes must precede the pi valves that reference them)."""
    spec = copy.deepcopy(spec)
    js = spec["junctions"]
    spec["junctions"] = [js[i] for i in rng.permutation(len(js))]
    els = spec["elements"]
    els = [els[i] for i in rng.permutation(len(els))]
    first = [e for e in els if not (e["kind"] == "valve" and e["et"] == "pi")]
    later = [e for e in els if e["kind"] == "valve" and e["et"] == "pi"]
    # pressure controllers are only created when their controlled junction is reachable at creation
    # time: create them after all other branches
    pcs = [e for e in first if e["kind"] == "press_control"]
    first = [e for e in first if e["kind"] != "press_control"]
    spec["elements"] = first + pcs + later
    return spec


def spec_summary(spec):
    kinds = {}
    for e in spec["elements"]:
        kinds[e["kind"]] = kinds.get(e["kind"], 0) + 1
    return {"fluid": spec["fluid"], "junctions": len(spec["junctions"]), "elements": kinds}


# ------------------------------------------------------------------------------------------------
# district heating loops
# ------------------------------------------------------------------------------------------------
CONSUMER_MODES = ["MF_DT", "MF_TR", "QE_MF", "QE_DT", "QE_TR"]


def add_cold_line(spec, rng):
    """A separate line fed by a pressure-only grid: calculated hydraulically, but without any temperature source it is no part of
    the thermal calculation (its pipes stand before every pump / consumer in the internal branch table)."""
    k = int(rng.integers(2, 4))
    for i in range(k + 1):
        spec["junctions"].append({"name": "c%d" % i, "pn_bar": 4.0, "tfluid_k": float(rng.uniform(280, 300)), "height_m": 0.0, "in_service": True})
    new = [{"kind": "pipe", "name": "cold_pipe%d" % i, "from_junction": "c%d" % i, "to_junction": "c%d" % (i + 1),
            "length_km": float(rng.uniform(0.05, 0.3)), "inner_diameter_mm": float(rng.uniform(60, 150)), "k_mm": 0.1,
            "sections": int(rng.integers(1, 3)), "u_w_per_m2k": float(rng.uniform(0, 5)), "in_service": True} for i in range(k)]
    # created first: the rows of the cold line precede those of the loop
    spec["elements"] = new + spec["elements"] + [
        {"kind": "ext_grid", "name": "eg_cold", "junction": "c0", "p_bar": 4.0, "t_k": 285.0, "type": "p", "in_service": True},
        {"kind": "sink", "name": "sink_cold", "junction": "c%d" % k, "mdot_kg_per_s": float(rng.uniform(0.2, 1.0)), "scaling": 1.0, "in_service": True}]
    return spec


def gen_heating(rng, n=None, source=None, modes=CONSUMER_MODES, chords=None, max_sections=4, u_max=2.0,
                exchangers=True, negative_heat=False):
    """Flow/return tree pair closed by heat consumers (and flow-controlled heat exchangers), fed by a
    circulation pump (pressure or mass) or by a pt grid on the flow side and a p grid on the return side."""
    n = int(n or rng.integers(2, 8))
    source = source or str(rng.choice(["cpp", "cpm", "grid"]))
    t_flow = float(rng.uniform(350, 390))
    js, els = [], []
    cnt = {}

    def add(kind, **kw):
        k = cnt.get(kind, 0)
        cnt[kind] = k + 1
        e = {"kind": kind, "name": "%s%d" % (kind, k)}
        e.update(kw)
        els.append(e)
        return e

    def junction(name, t, h=0.0):
        js.append({"name": name, "pn_bar": 5.0, "tfluid_k": float(t), "height_m": float(h), "in_service": True})

    hs = rng.uniform(0, 30, n) if rng.random() < 0.5 else np.zeros(n)
    tf0, tr0 = float(rng.uniform(330, 370)), float(rng.uniform(300, 330))
    for i in range(n):
        junction("f%d" % i, tf0, hs[i])
    for i in range(n):
        junction("r%d" % i, tr0, hs[i])
    parent = {}
    children = {i: [] for i in range(n)}

    def pipe(a, b):
        d = float(rng.uniform(50, 160))
        return add("pipe", from_junction=a, to_junction=b, length_km=float(rng.uniform(0.05, 0.3)),
                   inner_diameter_mm=d, outer_diameter_mm=d + float(rng.uniform(4, 30)),
                   k_mm=float(rng.uniform(0.01, 0.2)), sections=int(rng.integers(1, max_sections + 1)),
                   u_w_per_m2k=float(rng.uniform(0, u_max)) if rng.random() < 0.85 else 0.0,
                   text_k=float(rng.uniform(268, 293)), in_service=True)

    for i in range(1, n):
        k = int(rng.integers(0, i))
        parent[i] = k
        children[k].append(i)
        pipe("f%d" % k, "f%d" % i)
        pipe("r%d" % i, "r%d" % k)
    nch = int(rng.integers(0, 3)) if chords is None else chords
    for _ in range(nch if n > 2 else 0):
        a, b = (int(x) for x in rng.choice(np.arange(1, n), 2, replace=False)) if n > 2 else (0, 1)
        pipe("f%d" % a, "f%d" % b)
        if rng.random() < 0.5:
            pipe("r%d" % a, "r%d" % b)
    cons_nodes = [i for i in range(n) if not children[i] or rng.random() < 0.35]
    if source == "cpm" and 0 not in cons_nodes and len(cons_nodes) < 2:
        cons_nodes.append(0)
    total = 0.0
    free_done = source != "cpm"
    for i in cons_nodes:
        m = float(rng.uniform(0.2, 1.5))
        dt = float(rng.uniform(10, 40))
        q = m * 4185.0 * dt * (-1.0 if (negative_heat and rng.random() < 0.3) else 1.0)
        tr = float(rng.uniform(305, 335))
        a, b = "f%d" % i, "r%d" % i
        if not free_done:
            # the mass pump prescribes the total flow: one branch must stay free
            add("heat_exchanger", from_junction=a, to_junction=b, qext_w=q, inner_diameter_mm=float(rng.uniform(40, 120)),
                loss_coefficient=float(rng.uniform(5, 50)), in_service=True)
            free_done = True
            total += m
            continue
        if exchangers and rng.random() < 0.2:
            x = "x%d" % i
            junction(x, tf0, hs[i])
            add("flow_control", from_junction=a, to_junction=x, controlled_mdot_kg_per_s=m, control_active=True, in_service=True)
            add("heat_exchanger", from_junction=x, to_junction=b, qext_w=q, inner_diameter_mm=float(rng.uniform(40, 120)),
                loss_coefficient=float(rng.uniform(0, 20)), in_service=True)
            total += m
            continue
        mode = str(rng.choice(list(modes)))
        kw = dict(from_junction=a, to_junction=b, in_service=True)
        if mode == "MF_DT":
            kw.update(controlled_mdot_kg_per_s=m, deltat_k=dt)
        elif mode == "MF_TR":
            kw.update(controlled_mdot_kg_per_s=m, treturn_k=tr)
        elif mode == "QE_MF":
            kw.update(controlled_mdot_kg_per_s=m, qext_w=q)
        elif mode == "QE_DT":
            kw.update(qext_w=abs(q), deltat_k=dt)
        else:
            kw.update(qext_w=abs(q), treturn_k=tr)
        add("heat_consumer", **kw)
        total += m
    p_flow = float(rng.uniform(6, 10))
    if source == "cpp":
        add("circ_pump_pressure", return_junction="r0", flow_junction="f0", p_flow_bar=p_flow,
            plift_bar=float(rng.uniform(1.5, 4)), t_flow_k=t_flow, in_service=True)
    elif source == "cpm":
        add("circ_pump_mass", return_junction="r0", flow_junction="f0", p_flow_bar=p_flow,
            mdot_flow_kg_per_s=total * float(rng.uniform(1.0, 1.3)), t_flow_k=t_flow, in_service=True)
    else:
        add("ext_grid", junction="f0", p_bar=p_flow, t_k=t_flow, type="pt", in_service=True)
        add("ext_grid", junction="r0", p_bar=p_flow - float(rng.uniform(1.5, 4)), t_k=tr0, type="p", in_service=True)
    return {"fluid": "water", "junctions": js, "elements": els, "heating": {"source": source, "t_flow": t_flow}}


def gen_thermal_mesh(rng, n=None, two_feeders=None, max_sections=3):
    """Passive hot-water mesh (no heat sources): one or two pt feeders, sinks, pipes with heat loss.
    With two feeders and meshes, reverse flow against the declared direction occurs."""
    n = int(n or rng.integers(4, 10))
    two = bool(rng.random() < 0.6) if two_feeders is None else two_feeders
    js = [{"name": "j%d" % i, "pn_bar": 5.0, "tfluid_k": float(rng.uniform(290, 340)), "height_m": 0.0, "in_service": True}
          for i in range(n)]
    els = [{"kind": "ext_grid", "name": "eg0", "junction": "j0", "p_bar": 6.0, "t_k": float(rng.uniform(350, 385)), "in_service": True}]
    if two:
        els.append({"kind": "ext_grid", "name": "eg1", "junction": "j1", "p_bar": 6.0 - float(rng.uniform(0, 0.15)),
                    "t_k": float(rng.uniform(315, 345)), "in_service": True})
    edges = []
    for i in range(2 if two else 1, n):
        edges.append((int(rng.integers(0, i)), i))
    for _ in range(int(rng.integers(1, n))):
        a, b = (int(x) for x in rng.choice(n, 2, replace=False))
        if rng.random() < 0.5:
            a, b = b, a
        edges.append((a, b))
    for k, (a, b) in enumerate(edges):
        d = float(rng.uniform(80, 500))
        els.append({"kind": "pipe", "name": "pipe%d" % k, "from_junction": "j%d" % a, "to_junction": "j%d" % b,
                    "length_km": float(rng.uniform(0.06, 0.3)), "inner_diameter_mm": d,
                    "outer_diameter_mm": d + float(rng.uniform(0, 40)), "k_mm": 0.1,
                    "sections": int(rng.integers(1, max_sections + 1)),
                    "u_w_per_m2k": float(rng.uniform(0, 25)) if rng.random() < 0.85 else 0.0,
                    "text_k": float(rng.uniform(265, 295)) if rng.random() < 0.8 else None, "in_service": True})
    for i in range(2 if two else 1, n):
        if rng.random() < 0.75:
            els.append({"kind": "sink", "name": "sink%d" % i, "junction": "j%d" % i,
                        "mdot_kg_per_s": float(rng.uniform(0.2, 2.0)), "scaling": 1.0, "in_service": True})
    for e in els:
        if e["kind"] == "pipe" and e["text_k"] is None:
            del e["text_k"]
    return {"fluid": "water", "junctions": js, "elements": els, "heating": {"source": "passive"}}


def add_standby(spec, rng, prob=0.6, controllers=False):
    """Parallel stand-by machines: an out-of-service pump / compressor of another type or ratio beside a running one, created
    before or after it (the row order of active and inactive elements differs from case to case)."""
    els = []
    n = 0
    for e in spec["elements"]:
        twin = None
        if e["kind"] == "pump" and e.get("in_service", True) and rng.random() < prob:
            twin = dict(e, name=e["name"] + "_standby", std_type=str(rng.choice([t for t in PUMP_TYPES if t != e["std_type"]])), in_service=False)
        elif e["kind"] == "compressor" and e.get("in_service", True) and rng.random() < prob:
            twin = dict(e, name=e["name"] + "_standby", pressure_ratio=e["pressure_ratio"] + 0.3, in_service=False)
        elif e["kind"] == "press_control" and e.get("in_service", True) and controllers and rng.random() < prob:
            # duty / stand-by controllers on one controlled junction; the disabled one keeps control_active and another set-point
            twin = dict(e, name=e["name"] + "_standby", controlled_p_bar=e["controlled_p_bar"] * 0.8, in_service=False)
        if twin is not None and rng.random() < 0.6:
            els += [twin, e]
        elif twin is not None:
            els += [e, twin]
        else:
            els.append(e)
        n += twin is not None
    used = {}
    for e in els:
        if e.get("index") is not None:
            used.setdefault(e["kind"], set()).add(e["index"])
    for e in els:                       # a twin gets a label of its own (labels are unique per table)
        if e["name"].endswith("_standby") and e.get("index") is not None:
            e["index"] = max(used[e["kind"]]) + int(rng.integers(1, 5))
            used[e["kind"]].add(e["index"])
    spec["elements"] = els
    spec.pop("row_order", None)
    return n
