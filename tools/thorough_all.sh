#!/bin/bash
# Development aid: run every thorough tier once (no evidence written), one line per check.
cd "$(dirname "${BASH_SOURCE[0]}")/.." || exit 1
for c in ${@:-C01 C02 C03 C04 C05 C06 C07 C08 C09 C10 C11 C12 C13 C14 C15 C16 C17 C18 C19 C20}; do
  s=$(date +%s)
  out=$(VERIF_NO_EVIDENCE=1 VERIF_REPLAY_DIR=$PWD/replays_sweep ./check $c --tier thorough 2>&1)
  rc=$?
  echo "$c exit=$rc $(( $(date +%s) - s ))s $(echo "$out" | grep -E '^  \[|^VIOLATION|^INCONCLUSIVE|harness errors' | cut -c1-260 | tr '\n' '|')"
  echo "$out" | grep -E "^C[0-9][0-9] tier" | cut -c1-200
done
