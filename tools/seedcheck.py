#!/venv/bin/python
"""Verify an independently written property-breaking change in a scratch worktree and run checks against it.

    tools/seedcheck.py <seed id> <worktree> <property> [checks to run ...]

Confirms: the repository's test-suite passes with the change; DEMO.py exits 1 with and 0 without the change.
Then runs the given quick checks with VERIF_REPO=<worktree> (nothing is applied to /repo) and stores
patch.diff, DEMO.py, NOTE.md and meta.json under /verif/seeded/<seed id>/.
"""
import json, os, re, shutil, subprocess, sys, time
ROOT = os.path.dirname(os.path.dirname(os.path.abspath(__file__)))
sid, wt, prop = sys.argv[1:4]
checks = sys.argv[4:] or [prop]
env = dict(os.environ, PYTHONPATH=os.path.join(wt, "src"))
env.pop("PANDAPIPES_VERIF", None)
run = lambda cmd, **kw: subprocess.run(cmd, cwd=wt, env=env, capture_output=True, text=True, **kw)
patch = run(["git", "diff"]).stdout
assert patch.strip(), "no change in worktree"
meta = {"seed": sid, "property": prop, "worktree": wt, "files_changed": re.findall(r"^\+\+\+ b/(.*)$", patch, re.M)}
t0 = time.time()
r = run(["/venv/bin/python", "-m", "pytest", "-q", "-p", "no:cacheprovider", "-n", "8", "--timeout=900", "src/pandapipes/test"])
m = re.search(r"(\d+) passed", r.stdout)
meta["suite_with_change"] = r.stdout.strip().splitlines()[-1] if r.stdout.strip() else "no output"
meta["suite_passes"] = bool(m and int(m.group(1)) == 446 and " failed" not in meta["suite_with_change"] and " error" not in meta["suite_with_change"])
d1 = run(["/venv/bin/python", "DEMO.py"], timeout=1200)
pf = os.path.join(wt, "_seed_change.patch")
open(pf, "w").write(patch)
assert run(["git", "apply", "-R", pf]).returncode == 0
try:
    d0 = run(["/venv/bin/python", "DEMO.py"], timeout=1200)
finally:
    assert run(["git", "apply", pf]).returncode == 0
os.remove(pf)
meta["demo_exit_with_change"] = d1.returncode
meta["demo_exit_without_change"] = d0.returncode
meta["demo_output_with_change"] = (d1.stdout + d1.stderr)[-600:]
meta["confirmed"] = bool(meta["suite_passes"] and d1.returncode == 1 and d0.returncode == 0)
res = {}
# the checks run against the CURRENT /repo sources with the change applied on a scratch copy (the worktree may be older
# than later fix: commits)
import tempfile
scratch = tempfile.mkdtemp(prefix="pvseed_")
shutil.copytree("/repo/src", os.path.join(scratch, "src"), ignore=shutil.ignore_patterns("__pycache__", "test"))
ap = subprocess.run(["patch", "-p1", "-s", "--no-backup-if-mismatch"], input=patch, cwd=scratch, capture_output=True, text=True)
meta["patch_applies_to_current_repo"] = ap.returncode == 0
if ap.returncode != 0:
    print("patch does not apply to the current tree:", ap.stdout[-300:], ap.stderr[-300:])
for c in checks:
    e2 = dict(os.environ, VERIF_REPO=scratch, VERIF_NO_EVIDENCE="1", VERIF_REPLAY_DIR=os.path.join(wt, "_replays"))
    t1 = time.time()
    rr = subprocess.run([os.path.join(ROOT, "check"), c, "--tier", "quick"], env=e2, capture_output=True, text=True)
    tags = sorted({l.split("replay=")[1].split("/")[-1].rsplit("_", 1)[0] for l in rr.stdout.splitlines() if l.startswith("VIOLATION")})
    first = [l.strip()[:300] for l in rr.stdout.splitlines() if l.startswith("  [")][:3]
    res[c] = {"exit": rr.returncode, "verdict": {0: "missed", 1: "caught", 2: "inconclusive"}.get(rr.returncode, "?"), "tags": tags,
              "first_messages": first, "wall_s": round(time.time() - t1, 1)}
shutil.rmtree(os.path.join(wt, "_replays"), ignore_errors=True)
shutil.rmtree(scratch, ignore_errors=True)
meta["checks_run"] = res
meta["what_i_ran"] = ["pytest -n 8 src/pandapipes/test in the worktree with PYTHONPATH=<worktree>/src", "DEMO.py with the change / with the change reverse-applied",
                      "./check <id> --tier quick with VERIF_REPO=<scratch copy of the current /repo/src with the patch applied>"]
out = os.path.join(ROOT, "seeded", sid)
os.makedirs(out, exist_ok=True)
open(os.path.join(out, "patch.diff"), "w").write(patch)
for f in ("DEMO.py", "NOTE.md"):
    if os.path.exists(os.path.join(wt, f)):
        shutil.copy(os.path.join(wt, f), os.path.join(out, f))
note = open(os.path.join(out, "NOTE.md")).read() if os.path.exists(os.path.join(out, "NOTE.md")) else ""
meta["needs_to_manifest"] = note[:1500]
json.dump(meta, open(os.path.join(out, "meta.json"), "w"), indent=1)
print(sid, "confirmed" if meta["confirmed"] else "NOT CONFIRMED", meta["suite_with_change"][:80], "demo", d1.returncode, d0.returncode,
      {c: (v["verdict"], v["tags"]) for c, v in res.items()})
