#!/venv/bin/python
"""Development aid: run checks over several seeds (no evidence written), print one line per run.
    tools/sweep.py quick 1,2,3 [C01 C02 ...]"""
import json, os, subprocess, sys, time
ROOT = os.path.dirname(os.path.dirname(os.path.abspath(__file__)))
tier = sys.argv[1]
seeds = [int(x) for x in sys.argv[2].split(",")]
props = sys.argv[3:] or [c["property_id"] for c in json.load(open(os.path.join(ROOT, "MANIFEST.json")))["checks"]]
for s in seeds:
    for p in props:
        t0 = time.time()
        env = dict(os.environ, VERIF_SEED=str(s), VERIF_NO_EVIDENCE="1", VERIF_REPLAY_DIR=os.path.join(ROOT, "replays_sweep"))
        r = subprocess.run([os.path.join(ROOT, "check"), p, "--tier", tier], env=env, capture_output=True, text=True)
        lines = [l[:260] for l in r.stdout.splitlines() if l.startswith(("  [", "VIOLATION", "INCONCLUSIVE"))]
        print("seed=%d %s exit=%d %.0fs %s" % (s, p, r.returncode, time.time() - t0, " | ".join(lines)), flush=True)
