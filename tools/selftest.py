#!/venv/bin/python
"""Development aid: apply one property-breaking patch to a scratch copy of /repo/src (outside /repo and
/verif), run the given quick checks against the copy, expect exit 1, remove the copy.

    tools/selftest.py mutants/<patch> C02 [C09 ...]      (or: tools/selftest.py --all)
"""
import json, os, shutil, subprocess, sys, tempfile, time
ROOT = os.path.dirname(os.path.dirname(os.path.abspath(__file__)))


def run(patch, props, tier="quick"):
    scratch = tempfile.mkdtemp(prefix="pvmut_")
    try:
        shutil.copytree("/repo/src", os.path.join(scratch, "src"), ignore=shutil.ignore_patterns("__pycache__", "test"))
        r = subprocess.run(["patch", "-p1", "-s", "-i", os.path.abspath(patch)], cwd=scratch)
        if r.returncode:
            return [(p, "patch failed", 0) for p in props]
        out = []
        for p in props:
            env = dict(os.environ, VERIF_REPO=scratch, VERIF_NO_EVIDENCE="1", VERIF_REPLAY_DIR=os.path.join(scratch, "replays"))
            t0 = time.time()
            r = subprocess.run([os.path.join(ROOT, "check"), p, "--tier", tier], env=env, capture_output=True, text=True)
            tags = sorted({l.split("replay=")[1].split("/")[-1].rsplit("_", 1)[0] for l in r.stdout.splitlines() if l.startswith("VIOLATION")})
            out.append((p, {0: "MISSED", 1: "caught", 2: "inconclusive"}.get(r.returncode, r.returncode), round(time.time() - t0, 1), tags))
        return out
    finally:
        shutil.rmtree(scratch, ignore_errors=True)


if __name__ == "__main__":
    args = sys.argv[1:]
    if args and args[0] == "--all":
        table = json.load(open(os.path.join(ROOT, "mutants", "index.json")))
        jobs = [(os.path.join(ROOT, "mutants", k), v) for k, v in table.items()]
    else:
        jobs = [(args[0], args[1:])]
    for patch, props in jobs:
        for res in run(patch, props):
            print(os.path.basename(patch), *res, flush=True)
