#!/venv/bin/python
"""Assemble /verif/DESIGN.md from its hand-written parts (notes/design/*.md) and the generated tables of section 7
(known findings, mutant self-test results, independent seeded changes)."""
import glob, json, os, re
ROOT = os.path.dirname(os.path.dirname(os.path.abspath(__file__)))
D = os.path.join(ROOT, "notes", "design")
rd = lambda n: open(os.path.join(D, n)).read()
exec(rd("asbuilt.py"))
sec4 = rd("sec34_plan.md")
# splice the as-built paragraph at the end of every property section
parts = re.split(r"(?m)^(### C\d\d .*)$", sec4)
out = [parts[0]]
for i in range(1, len(parts), 2):
    pid = parts[i][4:7]
    body = parts[i + 1].rstrip("\n")
    out.append(parts[i] + body + "\n" + ASBUILT.get(pid, "") + "\n\n")
sec4 = "".join(out)
kf = json.load(open(os.path.join(ROOT, "known_findings.json")))["findings"]
lines = ["## 7. Findings, mutants and seeded changes", "",
         "### 7.1 Genuine defects found by the checks", "",
         "`fixed` = repaired by one unguarded `fix:` commit in /repo (the unedited suite stays at 447 passes after each); `open` = recorded",
         "in known_findings.json and announced as KNOWN-FINDING on every run.", "",
         "| # | property | status | mechanism tag | commit | what failed |", "|---|---|---|---|---|---|"]
for i, f in enumerate(kf, 1):
    what = f.get("line", f.get("what", ""))
    what = re.sub(r"^fixed: property=\S+ \S+ ", "", what)
    lines.append("| %d | %s | %s | `%s` | %s | %s |" % (i, f["property"], f["status"], f["mechanism"], f.get("commit", "-"), what.replace("|", "/")))
lines += ["", "Open findings - why they are not repaired:", ""]
for f in kf:
    if f["status"] == "open":
        lines.append("* **%s `%s`** - %s *Where:* %s. *Why not fixed:* %s." % (f["property"], f["mechanism"], f["what"], f.get("where", "-"), f.get("why_not_fixed", "-")))
lines += ["", "### 7.2 Mutant self-test (`tools/selftest.py --all`; quick tier, seed 0, scratch copy of /repo/src)", ""]
res = os.path.join(ROOT, "mutants", "RESULTS.txt")
if os.path.exists(res):
    lines += ["| mutant | check | verdict | s | violation tags |", "|---|---|---|---|---|"]
    for l in open(res):
        m = re.match(r"(\S+\.patch) (C\d\d) (\w+) ([\d.]+) (\[.*\])", l.strip())
        if m:
            lines.append("| %s | %s | %s | %s | %s |" % (m.group(1), m.group(2), m.group(3), m.group(4), m.group(5).replace("|", "/")))
else:
    lines.append("(not run yet)")
lines += ["", "### 7.3 Independent seeded changes (`seeded/<id>/`)", "",
          "Each change was written by a fresh sub-agent that was given only the text of one property and its own scratch worktree.",
          "`confirmed` = re-verified here: the repository suite passes with the change (446 passed + 1 xpassed), DEMO.py exits 1 with and 0",
          "without it. The checks were then run (quick tier, seed 0) against a scratch copy of the **current** /repo/src with patch.diff applied", "(`VERIF_REPO=<scratch>`; nothing is ever applied to /repo itself). Where a check missed a change at first, the strengthening is noted.", "",
          "| seed | property | files changed | confirmed | checks run -> verdict (tags) | what it needs to manifest |", "|---|---|---|---|---|---|"]
notes = json.load(open(os.path.join(ROOT, "seeded", "notes.json"))) if os.path.exists(os.path.join(ROOT, "seeded", "notes.json")) else {}
for mf in sorted(glob.glob(os.path.join(ROOT, "seeded", "*", "meta.json"))):
    m = json.load(open(mf))
    m.update(notes.get(m["seed"], {}))
    cr = "; ".join("%s: %s %s" % (c, v["verdict"], ",".join(t.split("_", 1)[1] if "_" in t else t for t in v["tags"])) for c, v in m["checks_run"].items())
    hist = m.get("history", "")
    need = (m.get("needs_short") or m.get("needs_to_manifest", "")[:200]).replace("\n", " ").replace("|", "/")
    lines.append("| %s | %s | %s | %s | %s%s | %s |" % (m["seed"], m["property"], ", ".join(os.path.basename(f) for f in m["files_changed"]),
                                                      "yes" if m["confirmed"] else "NO", cr, (" - " + hist) if hist else "", need))
sec7 = "\n".join(lines) + "\n\n"
doc = rd("head.md") + rd("sec2.md") + sec4 + rd("sec56.md") + sec7 + rd("appendix.md")
open(os.path.join(ROOT, "DESIGN.md"), "w").write(doc)
print("DESIGN.md written:", len(doc.splitlines()), "lines")
