#!/venv/bin/python
"""Development aid: create mutants/<name>.patch replacing OLD by NEW (first occurrence) in a file of /repo.
    tools/mkmutant.py NAME path/in/repo 'old text' 'new text'"""
import difflib, os, sys
name, path, old, new = sys.argv[1:5]
src = open(os.path.join("/repo", path)).read()
assert old in src, "old text not found"
dst = src.replace(old, new, 1)
diff = difflib.unified_diff(src.splitlines(True), dst.splitlines(True), "a/" + path, "b/" + path)
out = os.path.join(os.path.dirname(os.path.dirname(os.path.abspath(__file__))), "mutants", name + ".patch")
open(out, "w").write("".join(diff))
print("wrote", out)
