#!/venv/bin/python
"""Re-run checks against an already verified seeded change (seeded/<id>/patch.diff) applied to a scratch copy of the
current /repo/src; updates meta.json.   tools/seedrecheck.py <seed id> [checks ...]"""
import json, os, shutil, subprocess, sys, tempfile, time
ROOT = os.path.dirname(os.path.dirname(os.path.abspath(__file__)))
sid = sys.argv[1]
d = os.path.join(ROOT, "seeded", sid)
meta = json.load(open(os.path.join(d, "meta.json")))
checks = sys.argv[2:] or list(meta["checks_run"])
scratch = tempfile.mkdtemp(prefix="pvseed_")
try:
    shutil.copytree("/repo/src", os.path.join(scratch, "src"), ignore=shutil.ignore_patterns("__pycache__", "test"))
    ap = subprocess.run(["patch", "-p1", "-s", "--no-backup-if-mismatch", "-i", os.path.join(d, "patch.diff")], cwd=scratch, capture_output=True, text=True)
    meta["patch_applies_to_current_repo"] = ap.returncode == 0
    if ap.returncode:
        print(sid, "PATCH DOES NOT APPLY", ap.stdout[-200:])
    else:
        for c in checks:
            e2 = dict(os.environ, VERIF_REPO=scratch, VERIF_NO_EVIDENCE="1", VERIF_REPLAY_DIR=os.path.join(scratch, "_replays"))
            t1 = time.time()
            rr = subprocess.run([os.path.join(ROOT, "check"), c, "--tier", "quick"], env=e2, capture_output=True, text=True)
            tags = sorted({l.split("replay=")[1].split("/")[-1].rsplit("_", 1)[0] for l in rr.stdout.splitlines() if l.startswith("VIOLATION")})
            first = [l.strip()[:300] for l in rr.stdout.splitlines() if l.startswith("  [")][:3]
            prev = meta["checks_run"].get(c)
            meta["checks_run"][c] = {"exit": rr.returncode, "verdict": {0: "missed", 1: "caught", 2: "inconclusive"}.get(rr.returncode, "?"), "tags": tags,
                                     "first_messages": first, "wall_s": round(time.time() - t1, 1)}
            if prev and prev["verdict"] != meta["checks_run"][c]["verdict"]:
                meta.setdefault("verdict_history", []).append({"check": c, "before": prev["verdict"], "after": meta["checks_run"][c]["verdict"]})
        meta["what_i_ran"] = ["pytest -n 8 src/pandapipes/test in the sub-agent\'s worktree with PYTHONPATH=<worktree>/src", "DEMO.py with the change / with the change reverse-applied",
                              "./check <id> --tier quick with VERIF_REPO=<scratch copy of the current /repo/src with patch.diff applied>"]
    json.dump(meta, open(os.path.join(d, "meta.json"), "w"), indent=1)
    print(sid, {c: (v["verdict"], v["tags"]) for c, v in meta["checks_run"].items()})
finally:
    shutil.rmtree(scratch, ignore_errors=True)
