#!/venv/bin/python
"""Regenerate /verif/MANIFEST.json from the metadata of the property modules (run from /verif)."""
import importlib, json, os, sys
ROOT = os.path.dirname(os.path.dirname(os.path.abspath(__file__)))
sys.path.insert(0, ROOT)
props = [json.loads(l) for l in open(os.path.join(ROOT, "properties.jsonl"))]
checks, na = [], []
for p in props:
    pid = p["id"]
    path = os.path.join(ROOT, "pvmon", "props", pid.lower() + ".py")
    if not os.path.exists(path):
        na.append({"property_id": pid, "reason": "check not built yet (work in progress; see DESIGN.md section 4 for the planned monitor)"})
        continue
    src = open(path).read()
    ns = {}
    # metadata only: evaluate the MANIFEST dict literal without importing pandapipes
    import ast
    tree = ast.parse(src)
    meta = None
    for node in tree.body:
        if isinstance(node, ast.Assign) and getattr(node.targets[0], "id", None) == "MANIFEST":
            meta = ast.literal_eval(node.value)
    if meta is None:
        na.append({"property_id": pid, "reason": "check module present but not registered yet"})
        continue
    c = {"property_id": pid,
         "quick_cmd": "./check %s --tier quick" % pid,
         "evidence_file": "/verif/evidence/%s.json" % pid,
         "replay_cmd_template": "./check %s --replay {path}" % pid,
         "engine": "pvmon",
         "level_claimed": {"category": "exploration", "text": meta["text"], "design_ref": meta.get("design_ref", "DESIGN.md section 4 " + pid)},
         "level_note": meta["note"],
         "technique": meta["technique"]}
    if meta.get("thorough", True):
        c["thorough_cmd"] = "./check %s --tier thorough" % pid
    checks.append(c)
m = {
 "version": 1,
 "setup_cmd": "bash ./setup.sh",
 "hooks": {"guard": "PANDAPIPES_VERIF",
           "enable": "PANDAPIPES_VERIF=1 (set by ./check; pandapipes is imported from /repo/src, the editable install of /venv, so no build step)",
           "baseline_off_cmd": "cd /repo && /venv/bin/python -m pytest -ra -q -p no:cacheprovider --timeout=900 --continue-on-collection-errors",
           "source_commits": ["6829a30", "245c375"],
           "add_only": True},
 "engines": [{"name": "pvmon", "path": "/verif/pvmon", "serves_properties": [c["property_id"] for c in checks],
              "kind_free_text": "runtime monitoring: seeded workload generators drive the real pandapipes code (public API, guarded hooks H0-H2); per-property oracle modules observe every execution; subprocess shards with time-outs; three-valued verdict"}],
 "checks": checks,
 "not_applicable": na,
 "notes": "Family: runtime monitoring. Exit 0 held / 1 VIOLATION / 2 INCONCLUSIVE (monitor not reached, worker died). VERIF_SEED and VERIF_TIER honoured. known_findings.json lists genuine defects (open ones are announced as KNOWN-FINDING, fixed ones suppress nothing)."
}
json.dump(m, open(os.path.join(ROOT, "MANIFEST.json"), "w"), indent=1)
print("checks:", [c["property_id"] for c in checks], "not_applicable:", [n["property_id"] for n in na])
