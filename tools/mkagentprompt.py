#!/venv/bin/python
"""Development aid: write the task text for an independent seeding agent (round >= 2) of one property.

    tools/mkagentprompt.py C11 [round tag, default R2]  ->  /tmp/agent_prompts/<tag>_<id>.txt

The text contains the property statement only (nothing about /verif) plus the triggers of the changes that were
already seeded for the property, so that the new one uses a different mechanism.
"""
import glob, json, os, sys
ROOT = os.path.dirname(os.path.dirname(os.path.abspath(__file__)))
pid = sys.argv[1]
tag = sys.argv[2] if len(sys.argv) > 2 else "R2"
prop = [json.loads(l) for l in open(os.path.join(ROOT, "properties.jsonl")) if json.loads(l)["id"] == pid][0]
notes = json.load(open(os.path.join(ROOT, "seeded", "notes.json")))
prev = []
for m in sorted(glob.glob(os.path.join(ROOT, "seeded", "*", "meta.json"))):
    d = json.load(open(m))
    if d["property"] == pid:
        prev.append((notes.get(d["seed"], {}).get("needs_short", "?"), ", ".join(d.get("files_changed", []))))
wt = "/tmp/wt%s_%s" % (tag[1:].lower() if tag[0] == "R" else tag.lower(), pid.lower())
patch = "/tmp/%s%s_change.patch" % (tag.lower(), pid.lower())
tmpl = open(os.path.join(ROOT, "tools", "agent_prompt_template.txt")).read()
prev_txt = "".join('Note: another developer already produced a regression for this property whose trigger was: "%s" (files touched: %s). '
                   % p for p in prev)
if prev:
    prev_txt += "Choose a DIFFERENT mechanism, in a different function (preferably a different file), with a different trigger.\n\n"
out = tmpl.replace("@WT@", wt).replace("@PATCH@", patch).replace("@ID@", pid).replace("@TITLE@", prop["title"]) \
    .replace("@STATEMENT@", prop["statement"]).replace("@QUANT@", prop["quantifier"]["text"]).replace("@PREV@", prev_txt)
os.makedirs("/tmp/agent_prompts", exist_ok=True)
fn = "/tmp/agent_prompts/%s_%s.txt" % (tag, pid)
open(fn, "w").write(out)
print(fn, wt)
