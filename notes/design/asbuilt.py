ASBUILT = {
"C01": """* **As built (`props/c01.py`, `monitors.mon_c01`):** incidence is rebuilt from the tables for every `BranchComponent` of
  `net.component_list` (so converter components such as `valve_pipe` are covered); `pi` valves insert a virtual node. Workload:
  640 (quick) / 16 000 + 24 large nets of 300-2000 junctions (thorough) random gas/water nets over 11 feature sets x 5 label
  schemes x random solver configuration, plus every sixth case a circulation-pump loop with optional make-up ext grid(s) at the
  pump's flow junction or elsewhere and a leak sink (added after seeded change S01 was missed); thorough adds the repository
  suite under the monitor. Observed on the tree: max |imbalance| 1e-13 kg/s for undamped final steps, <= 5e-5 for constant
  alpha 0.3 within the derived bound. **Found:** with `automatic` damping an accepted last step was partially undone
  (`nodal_imbalance`, seed 1) - fixed. Every 40th case is a **transient heat time series** (3-5 steps on one net object with
  ConstControl load profiles, sequential / bidirectional, the internal tables re-used from step to step) whose every pipeflow is
  monitored through a sink on hook H1 (added after seeded change R2_C01: loads accumulating in the re-used node table).""",
"C02": """* **As built (`props/c02.py`, `monitors.mon_c02`):** all 8 library fluids x 3 friction models x numba on/off, load scale swept
  over 6 decades, heights, loss coefficients, 1-4 sections, ju/pi valves, heat exchangers; 75 % tight solves. A second workload
  (quarter of the cases) solves hot-water meshes and heating loops in `bidirectional` mode (added after seeded change S02):
  there density and viscosity belong to the reported temperatures, with the inlet temperature taken at the **upstream**
  junction for reverse flow. Interior nodes of multi-section pipes are read from the solver's node table (no public API exposes
  them for arbitrary labels). Bounds: tight `1e-7 + 1e-6 |friction|` (observed 9e-12 bar); default-tolerance runs
  `tol_res + 2 tol_p + |df/dm| tol_m` because the solver itself accepts residuals up to `tol_res` (see 6). lambda is compared
  with a sensitivity-aware tolerance (Swamee-Jain / Colebrook are singular at tiny Reynolds numbers) and section means with
  the accuracy of the solver's running-sum grouping. **Found and fixed:** loss coefficient per section, heat-exchanger area
  from a 0.1 m placeholder, valve `v_mean` = norm velocity for gases; (via C06) misplaced `t_outlet_k`.
  **Observation (no property violated):** the Colebrook derivative uses the signed mass flow, so for reverse flow the Jacobian
  entry can be wrong by orders of magnitude; Newton then stalls at residuals just below the default `tol_res = 1e-3 bar`.""",
"C03": """* **As built (`props/c03.py`, `monitors.mon_c03`):** random nets with library pumps, compressors, active/inactive flow
  controllers, local and remote pressure controllers, 1-3 ext grids (several per junction, out-of-service extras), warm fluid
  (320-353 K in half of the cases) + small loops with mass / pressure circulation pumps. Contradictory prescriptions (an ext
  grid on a controlled junction) are removed by the generator - they are not a valid network (first run: false alarm, generator
  corrected). Every 40th case is a transient heat time series (start pressures redrawn away from every prescribed pressure, all
  steps monitored through H1; added after seeded change R2_C03: a stale feeder count of the re-used node table let the start
  pressure leak into the fixed pressure from step 1 on). **Found and fixed:** pump curve evaluated at `mdot / rho(273.15 K)`.""",
"C04": """* **As built (`props/c04.py`, `reach.py`):** five hand-built topologies (path, tee with flow control / pressure control /
  pump, two-feeder gas mesh with pi valve and compressor, heating loop with two circulation pumps, two grids + island with a
  junction flag) with 9-11 flags each: quick samples 140 patterns per topology, **thorough enumerates all 2^k** (6656 patterns);
  plus random nets with random outages and permuted rows. Judged per pattern: junction clause, branch clause (hydraulic
  columns; any other number on an inactive row is `inactive_reports_<table>`), load/feeder clause, deletion equivalence against
  `reach.prune(spec)` (rtol 1e-7; observed 5e-12), "nothing supplied => PipeflowNotConverged", and a crash class
  (`pipeflow_crashes_on_outage_pattern`); a pattern that ends in PipeflowNotConverged although its pruned (supplied-only)
  network converges is `supplied_part_not_calculated` (added after seeded change S04). The heating-loop topology also holds a
  line fed by a pressure-only grid; in thermal modes the results of the thermally supplied part must equal those of the network
  without the part that has no temperature source (`thermally_supplied_part_depends_on_the_rest`, added after R3_C10). Loads at an out-of-service junction that in-service branches re-activate are not
  judged (inconsistent input, statement silent). The junction clause is judged on `p_bar` as stated ("receives a pressure
  result"); `t_k` of a junction outside the calculation is the start value (hydraulics) or the ambient temperature (thermal
  modes) by a convention the repository's own tests assert, and is not judged. **Found and fixed:** inactive heat consumers / circulation pumps / pressure
  controllers reporting numbers, ext grid on an inactive junction reporting 0.0, IndexError with an out-of-service
  circulation pump next to an in-service one (reported by the S04 seeding agent, reproduced after adding a second pump).""",
"C05": """* **As built (`props/c05.py`):** (A) 420 / 9000 call histories (1-5 calls on one object; feasible, overloaded, NaN-parameter,
  zero-diameter, tiny-pipe variants; four modes; automatic / constant damping; starved budgets; unreachable tolerances) checked
  online through H2: every converged stage ends on an in-tolerance (judged against the tolerances of the option layer per
  variable, not against what the loop reports it used - seeded change R2_C05 swapped them; a quarter of the calls draws unequal
  `tol_p / tol_m / tol_T` with `tol_res` up to 1), finite, undamped step; every exhausted stage used exactly
  its budget; returns are marked converged with finite results at fed junctions; `PipeflowNotConverged` leaves
  `net.converged` false and **no number in any result table**, also after earlier successes (225 such checks per quick run).
  The hostile variants include `no_supply` (every feeder switched off - valid input that fails before the first Newton
  iteration, also after earlier successes on the same object; added after seeded change R3_C13).
  NaN / zero parameters are invalid input: their exception class is only counted (numba raises ZeroDivisionError where numpy
  produces NaN). (B) the real `newton_raphson` driven with **all** sequences of 22 symbols (11 error patterns incl. NaN x
  residual in/out) of length = budget 1-3 (quick, 22 308 scripts) / 1-4 (thorough, 490 k scripts), both methods, against the
  reference state machine; error magnitudes are powers of two on round start values so that "error rose" is exact (two harness
  artefacts fixed before trusting it). (A2, added after seeded change S05) the trace itself can lie - so every returned
  hydraulics run with valid input is also compared with a tightly converged solve on a fresh build: the flows may deviate by at
  most `10 tol_m + 20 e_n q/(1-q) + 1e-5` with `e_n` the last reported mdot change and `q` the last contraction ratio (observed
  <= 1.7e-5 kg/s on the tree). Each stage must report the change of **every** one of its unknowns (hydraulics: mdot, p, mdotslack; heat:
  Tout, T; bidirectional: all five) and run under the budget the option layer asks for; thermal histories start from temperatures far
  from the solution in half of the cases and carry a thermally unsupplied line in 40 % (the two stages of the bidirectional loop then
  work on different tables); ValueError counts as a crash. **Found and fixed:** convergence accepted on a damped step (driver level only; none
  among 325 real automatic stage endings per run); accepted step partially restored (see C01); the bidirectional loop named four
  unknowns for five returned ones (node temperatures never checked, slack flows judged with tol_T); automatic damping in
  bidirectional mode raised ValueError when restoring old values (12 of 40 random heating loops).""",
"C06": """* **As built (`props/c06.py`):** per case the base spec and three variants (relabel with shuffled / gapped / >= 1e5 / mixed
  labels, row permutation of every table on top of shuffled labels, creation shuffle) for gas, water and heating nets, all
  components, tight solves, rtol 1e-7 (observed <= 5e-10). Not comparable (counted): a non-converged side, a pump /
  compressor without flow (no unique lift). **Found and fixed:** `t_outlet_k` written to the wrong pipes for unsorted indices
  with different section counts. **Open finding:** in Sector.NONE nets the start temperatures of interior nodes depend on the
  order in which the component tables were created. A fourth twin (30 % of the hydraulic cases) builds the net as Sector.NONE
  net with shuffled creation order, so that the internal order of the component tables changes; a difference is classified by a
  third run (section 6). **Found and fixed through it:** valves at pipe ends wired to the wrong pipes / written before the pipe
  rows existed when the pipe table is not the first branch table.""",
"C07": """* **As built (`props/c07.py`):** (a) 200 / 6000 random kernel batches with forced edge rows through all twin pairs
  (hydraulic incompressible / compressible, both Nikuradse variants, mean pressure, derived values, thermal steady-state and
  transient, grouped sums up to index 250 000 for int64 / int32 / uint32 index arrays, each engine also against a plain
  dictionary accumulation - added after seeded changes S07 / S09); residual-type outputs are judged, Jacobian-type differences are counted (df_dm at zero flow, mean-pressure
  derivatives, thermal node derivatives differ by design). Differences explained by conditioning are accepted and counted:
  NaN flow (laminar part NaN vs 0 while Re is NaN in both), catastrophic cancellation of the mean-pressure formula for nearly
  equal pressures (forward error bound eps p/|p-p1|), the 1e-10 kg/s zero-flow cut of the thermal node term (<= 1e-4 W).
  (b) 160 / 3000 engine pairs (gas, water, thermal), (c) 80 / 1500 update-matrix sequences with changed loads vs fresh runs
  (rtol 1e-9, observed 0) - in hydraulics, sequential and bidirectional mode, on nets with valves, pumps / compressors, pressure
  controllers and heating loops, loads = sinks, sources, flow controllers, heat consumers. Thorough sets `NUMBA_BOUNDSCHECK=1`.
  **Found and fixed:** numpy grouped sums as differences of a running sum (lambda off by 1e-6 relative next to a creeping-flow
  pipe; thorough tiers of C06 / C07 / C08); `only_update_hydraulic_matrix` raising KeyError / IndexError in the thermal modes
  and not converging with a pressure controller (reported by a seeding agent, reproduced after (c) was widened).""",
"C08": """* **As built (`props/c08.py`):** reference run (constant damping) vs three variants with redrawn `pn_bar` and / or `tfluid_k`
  and alternating damping method; `tfluid_k` only in bidirectional mode and in heat mode on a fixed hydraulic solution.
  Observed deviation <= 3e-6 relative inside the conditioning rules of section 3. Two converged runs that differ are examined
  with the law monitors of C01 / C02 / C10: if both are lawful and differ in the direction of a flow (or the side of a pump /
  compressor law) the network has **several solutions** - an **open finding** (`several_valid_solutions`; witness: a
  friction-poor return loop with 40 m height differences in bidirectional mode, buoyancy decides between two circulations); if
  a monitor rejects one of them, or no flow changes direction, it is a violation.""",
"C09": """* **As built (`props/c09.py`, `rewrites.py`):** per case every applicable rewrite of {reverse (pipes, ju valves, heat
  exchangers), split multi-section pipes into series pipes with interpolated height / start pressure / start temperature and
  zeta/n each, merge sections (liquid, uniform temperature), aggregate or split loads incl. source -> negative sink, drop
  disabled elements, shift fixed pressures (liquids)}; hydraulic cases for gas and water, thermal cases (sequential,
  bidirectional) for reverse and split. In hydraulics mode `t_outlet_k` of a reversed branch is only the start temperature of
  the other junction and is not compared. Nets with pumps / compressors carry out-of-service stand-by machines of another type
  before or after the running one (added after seeded change R2_C09 was missed). **Found and fixed:** branch start temperatures copied before feeders wrote theirs
  (two-pass `initialize_pit`), pi-valve node keeping a stale junction temperature, `dp_friction_loss_bar` averaged over
  sections, `t_outlet_k` taken from the wrong section for reverse flow, and (shared with C02) zeta per section.""",
"C10": """* **As built (`props/c10.py`, `monitors.mon_c10`):** passive meshes (1-2 pt feeders, reverse flow, 1-3 sections, U 0-25,
  per-pipe ambient temperature) and heating loops in modes sequential, bidirectional and heat (hydraulic columns of the
  heat-only run are taken over from the preceding hydraulics run). Cooling residual observed 1e-13 K; mixing residual 2e-5
  relative on default-tolerance runs, 1e-12 on tight ones. The pipe-level `t_outlet_k` must equal the outlet of the section
  the fluid leaves through. A third of the passive two-feeder cases is refused by the thermal stage (a pt grid receiving
  flow) and counted as not comparable. 30 % of the loops carry a separate line fed by a pressure-only grid (calculated
  hydraulically, no part of the thermal calculation; the monitors derive the thermal region themselves - reachable from a
  temperature-fixing feeder over flowing branches - and judge only streams inside it; added after seeded change R3_C10).
  **Found and fixed:** mixing weight `cp(cp)`.""",
"C11": """* **As built (`props/c11.py`, `monitors.mon_c11`):** loops with 1-8 consumers in all five modes, flow-controlled heat
  exchangers with positive and negative heat, 40 % of them entered against the flow direction (negative reported flow; added
  after seeded change S11), three source kinds, sequential and bidirectional. Q = m cp_mean dT holds to
  1e-14 relative for exchangers and consumers; loop closure within the cp spread. Every 20th case is a transient heat time series
  with ConstControl profiles on every prescribed consumer quantity (mass flow, heat, temperature difference, return temperature),
  monitored per step through H1 (duties and set-points; loop closure is no identity while pipes store heat) - added after seeded
  change R2_C11. Every circulation pump is also judged on its own: reported heat = m cp_mean (t_outlet - t_from) of its own stream,
  with return admixing into the pump's flow junction in 30 % of the pump loops (R3_C11). **Found and fixed:** pump heat
  `m (cp(T_out) T_out - cp(T_in) T_in)`. **Open finding:** QE_TR consumers in non-bidirectional modes.""",
"C12": """* **As built (`props/c12.py`, `fingerprint.py`):** the purity contract is evaluated by a sink on H1: a per-column fingerprint
  of every non-underscore entry (tables incl. dtypes, index and row order, fluid property attributes, standard types, user
  options without the solver's own `hyd_flag`, the stored defaults) at `enter` and at `exit` - on the normal and on the
  exceptional path (300 exceptional exits per quick run). Every call of a 2-7 call history is repeated on a fresh build
  carrying the same edits: same outcome class, bit-identical result tables; repeat on the same object bit-identical; heat-only
  calls are issued only on a stored hydraulics / sequential solution of the present description and compared with a
  sequential run; for the outcome class the fresh object first gets the history object's most recent hydraulic-capable call
  (that is what exposes a stale flag). A third of the hydraulic-capable calls uses `only_update_hydraulic_matrix`, half of those
  with `reuse_internal_data`; edits include flipping a pipe (a restorable change of the matrix structure). A call that itself asks
  for reuse after a structural edit gets what it asked for and is not judged; every call that does not ask for reuse must be
  independent of what an earlier call cached (added after seeded change R3_C12). **Found and fixed:** NaN `outer_diameter_mm` overwritten in the user's table (the
  default of `create_pipe_from_parameters`), stale `hyd_flag` after a failed run.""",
"C13": """* **As built (`props/c13.py`):** ConstControl profiles on sinks, sources and consumers over 4-8 steps, infeasible steps (x1e5),
  full / subset / shuffled `time_steps`, with and without `continue_on_divergence`, hydraulics and sequential. All stand-alone
  references are computed first, then the series is judged up to the first diverged step (without continue) or throughout.
  A series that raises never finalises its OutputWriter: its earlier steps are read from the writer's raw buffer. Logged
  values are compared bit-for-bit. H1 must deliver >= 1 pipeflow event per run. A quarter of the series has black-out steps
  (every feeder out of service: the step fails before its first iteration; R3_C13). Every eighth case is a **multi-energy series**
  (power net + 2-3 gas nets, one P2G coupling each so that the controllers of one level name different nets, half of the gas
  nets with a profile of their own; added after seeded change R2_C13). **Found and fixed:** the control loop compared net
  objects by content and raised ValueError for two gas nets with own controllers.""",
"C14": """* **As built (`props/c14.py`):** exhaustive (both tiers): every default key + `iter` + an unknown key + the two excluded keys x
  {absent, user, call, both}; all 256 presence patterns of {iter, max_iter_hyd, max_iter_therm, max_iter_bidirect} x {user,
  call}; deprecated mode in each layer; the reuse coupling in 8 combinations; the numba fallback by toggling the module flag;
  300 / 20 000 random full layer assignments; 40 / 600 real pipeflows (hydraulics, sequential, bidirectional) in which the first
  H2 event of **every** Newton stage must show that stage's resolved budget, tolerances and method (all stages since seeded
  change R2_C14). Purity by deep comparison of defaults, user options and call kwargs. **Found and fixed:** documented defaults.""",
"C15": """* **As built (`props/c15.py`):** own deep comparison (not `nets_equal`) over four storage paths; custom fluids with all five
  property classes, user pump types, custom columns, None names, geodata, ConstControl controllers, multinets with a P2G
  controller. JSON paths: row order exempt; float differences explainable by the 15-decimal text format and inf -> NaN are
  classified as the two **open findings** (encoder of the pandapower dependency), anything else is a violation; results of a
  pipeflow on the loaded net (tight solves on both sides) are bit-identical for pickle and equal within 1e-7 under the conditioning rules of `pvmon.compare` for JSON. 35 % of the nets have a non-default sector (NONE or the fluid's
  sector; R3_C15); custom fluids hold an interpolated property without extrapolation. **Found and fixed:** `net.converged`
  (numpy bool False) read back as True; `to_json` raising TypeError for a property created with `method="interpolate"`.""",
"C16": """* **As built (`props/c16.py`):** 16 single + 11 bulk create functions on nets of four sectors, empty and populated; optional
  arguments randomly omitted; per function one invalid argument at each reference position, duplicate index, unknown standard
  type, wrong / missing valve element, inconsistent set-points, malformed geodata, uncontrollable pressure control; in 35 % of
  the cases an invalid call comes *before* the first valid one (the component table does not exist yet). Whole-net
  fingerprints before / after every call. Documented defaults parsed from the docstrings. Label columns that are simply not
  set (None / NaN / '') compare equal between bulk and single creation. Per-element arguments of the bulk call arrive as list,
  ndarray or pandas Series (labels coinciding with the new rows or not; added after seeded change R2_C16). **Found and fixed:**
  Series arguments aligned by label in `create_ext_grids` / `create_pressure_controls` (IndexError / ValueError, the latter after
  the rows were written); `create_pipe(text_k=0)`, junction
  row written before geodata is rejected, missing controlled junction accepted, label-column docs. A dedicated scenario puts two pressure controllers in series (random labels): a controlled junction behind
  the other controller must be refused, one reached over a pipe must be accepted (R3_C16). **Open findings:** a failed
  create leaves a new empty component table; `create_pressure_control` returns None silently.""",
"C17": """* **As built (`props/c17.py`):** random sequences (1-6) of the ten toolbox operations on nets with every component; after each
  step: referential integrity (incl. `valve.element` against the pipe index for pi valves, result rows without element,
  duplicate labels), name-resolved comparison of untouched elements, pipeflow results after pure relabelling; finally
  `select_subnet` of the complete supplied region must reproduce the region's results. **Found and fixed:** pi-valve element
  treated as a junction in five functions, `drop_pipes` leaving valves, `create_continuous_elements_index` reindexing result
  tables twice.""",
"C18": """* **As built (`props/c18.py`):** five net classes with consistent outage patterns; `unsupplied_junctions` + out-of-service vs the
  NaN pattern of a real pipeflow; graph components vs islands; edge multisets for 6 random argument combinations per net
  (multi and simple graph); distances vs an own Dijkstra. A mismatch is accepted as a listed finding **only if** the
  reachability model with exactly the corresponding relaxation reproduces the tool's answer (smallest explaining set of
  {circ_pump_not_supply, t_grid_supply, fc_connects, pc_undirected}). **Found and fixed:** pi-valve edges to a node labelled
  like the pipe + missing junction nodes, ignored compressor arguments, supply by circulation pumps / t-only grids in
  `unsupplied_junctions`; AttributeError of `create_nxgraph` / `unsupplied_junctions` on nets without valve / ext_grid table; (through
  the supply-pattern comparison) valves at pipe ends wired to the wrong pipes when the pipe table is not the first branch table.
  15 % of the nets are Sector.NONE nets (only the tables of the created elements, in creation order).
  **Open findings:** flow controllers / consumers as edges, undirected pressure controllers.""",
"C19": """* **As built (`props/c19.py`):** data files re-read by the oracle for all 8 library fluids; shapes for scalar / ndarray / Series /
  length-1 queries; integral laws for all property classes incl. user-built ones; mixtures with 2-5 components (1-d and 2-d
  forms); library and user pumps (from lists and polynomials) with flows of both signs; all 285 standard pipe types - half of
  them after a pipe of the same type was created with individual `k_mm` / `u_w_per_m2k` overrides (single or bulk call), and the
  net's library entry itself is compared with the data file afterwards (added after seeded change R2_C19).
  **Found and fixed:** InterExtra integral (upper limit twice) and Linear integral (AttributeError), pump array branch,
  hydrogen compressibility derivative.""",
"C20": """* **As built (`props/c20.py`):** multinets of 2-4 members (random gas net, second gas net with another fluid, pandapower example
  net, by-standing heating loop) with P2G, G2P (gas-led and power-led, the power-led one with 1-3 units whose partner indices differ and are paired in
  permuted order - seeded change R2_C20), G2G controllers on scalar and vectorised indices,
  non-unit scalings, random orders / levels; heating values re-read from the data files; forth-and-back through a fresh G2P
  unit; members vs stand-alone pipeflow (bit-identical) / runpp (1e-10); converged flag; an overloaded member is judged only
  if its stand-alone pipeflow really fails (some overloaded gas nets still "converge" numerically); coupled time series of
  3-5 steps compared per step with stand-alone runs. Half of the gas / heat members carry a controller of their own.""",
}
