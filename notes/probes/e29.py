exec(open("e26.py").read().split("for fluid in")[0])
import copy
for fluid in ["water","lgas"]:
    d1=d2=0; nc=0; tot=0
    for seed in range(15):
        S = spec(seed, fluid); a = build(S); pp.pipeflow(a, **T); pj, pm = res(a)
        rng = np.random.default_rng(seed+5)
        for trial in range(4):
            S2 = copy.deepcopy(S)
            for J in S2["J"]: J["pn"] = float(rng.uniform(0.5, 20) if fluid=="water" else rng.uniform(0.9, 3.0))
            b = build(S2); tot+=1
            try: pp.pipeflow(b, nonlinear_method=("automatic" if trial%2 else "constant"), **T)
            except Exception as e: nc+=1; continue
            qj, qm = res(b); d1=max(d1,(pj-qj).abs().max()); d2=max(d2,(pm-qm).abs().max())
    print(fluid, "start-value/damping variation: max|dp| %.2e max|dm| %.2e  (not converged %d/%d)"%(d1,d2,nc,tot))
# thermal start values in bidirectional on heat loop
exec(open("e25.py").read().split("cp = None")[0])
import pandapipes as pp
base = loop("bidirectional","p"); t0 = base.res_junction.t_k.values.copy(); m0 = base.res_pipe.mdot_from_kg_per_s.values.copy()
def loop2(tf):
    import numpy as np
    net = loop.__globals__["pp"].create_empty_network  # noqa
worst=0
for tf in (300., 345., 360.):
    src = open("e25.py").read().split("cp = None")[0].replace("pp.create_junctions(net, 12, 5, 330)", "pp.create_junctions(net, 12, 5, %f)"%tf)
    g = {}; exec(src, g); n2 = g["loop"]("bidirectional","p")
    worst = max(worst, np.abs(n2.res_junction.t_k.values-t0).max(), np.abs(n2.res_pipe.mdot_from_kg_per_s.values-m0).max())
print("bidirectional, tfluid_k start 300/345/360 vs 330: max diff", worst)
