import numpy as np, pandas as pd, pandapipes as pp, logging, copy
logging.disable(logging.CRITICAL)
from pandapower.control import ConstControl
from pandapower.timeseries import DFData, OutputWriter
from pandapipes.timeseries import run_timeseries
def mk():
    net = pp.create_empty_network(fluid="lgas")
    j = pp.create_junctions(net, 4, 1, 290)
    pp.create_ext_grid(net, j[0], p_bar=1.0, t_k=290)
    pp.create_pipe_from_parameters(net, j[0], j[1], 0.5, 100); pp.create_pipe_from_parameters(net, j[1], j[2], 0.5, 80); pp.create_pipe_from_parameters(net, j[2], j[3], 0.7, 80)
    pp.create_sink(net, j[3], 0.01); pp.create_sink(net, j[1], 0.01)
    return net
prof = pd.DataFrame({"s0": [0.01, 0.02, 50.0, 0.005, 0.03], "s1": [0.001, 0.002, 0.003, 0.004, 0.005]})
for cod in (True, False):
    net = mk()
    ConstControl(net, "sink", "mdot_kg_per_s", element_index=[0,1], profile_name=["s0","s1"], data_source=DFData(prof))
    ow = OutputWriter(net, time_steps=range(5), output_path=None, log_variables=[("res_junction","p_bar"),("res_ext_grid","mdot_kg_per_s")])
    try:
        run_timeseries(net, time_steps=range(5), continue_on_divergence=cod, verbose=False, iter=30)
        print("continue_on_divergence", cod, "returned")
    except Exception as e: print("continue_on_divergence", cod, "raised", type(e).__name__)
    if "res_junction.p_bar" in ow.output: print(ow.output["res_junction.p_bar"].round(6).to_string()); print(ow.output["Parameters"][["time_step","powerflow_failed"]].T.to_string())
    else: print("   output keys", list(ow.output.keys()))
for s in range(5):
    n2 = mk(); n2.sink.loc[[0,1],"mdot_kg_per_s"] = prof.loc[s].values
    try: pp.pipeflow(n2, iter=30); print(s, n2.res_junction.p_bar.round(6).values)
    except Exception as e: print(s, type(e).__name__)
