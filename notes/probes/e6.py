import numpy as np, pandas as pd, pandapipes as pp, logging, traceback
logging.disable(logging.WARNING)
from pandapipes.properties.fluids import *
f = pp.call_lib("water")
hc = f.all_properties["heat_capacity"]
print("InterExtra integral a->b, b->a:", hc.get_at_integral_value(350., 300.), hc.get_at_integral_value(300., 350.))
lin = FluidPropertyLinear(2.0, 1.0)
for args in [(3.0, 1.0), (np.array([3.0]), np.array([1.0])), (pd.Series([3.0]), pd.Series([1.0]))]:
    try: print("Linear integral", type(args[0]).__name__, lin.get_at_integral_value(*args))
    except Exception as e: print("Linear integral", type(args[0]).__name__, "RAISES", type(e).__name__, e)
c = FluidPropertyConstant(4.0)
print("const", c.get_at_integral_value(3.0,1.0), c.get_at_value(3.0), c.get_at_value(np.array([1.,2.])), c.get_at_value())
pol = FluidPropertyPolynominal([0,1,2,3],[1,2,5,10],2)
print("poly", pol.get_at_integral_value(3.0,1.0), pol.get_at_integral_value(1.0,3.0))
# pump
net = pp.create_empty_network(fluid="water")
p = net.std_types["pump"]["P1"]
q = np.array([0.0, 0.005, 0.02, 0.05])
print("pump scalar", [p.get_pressure(x) for x in q])
try: print("pump array ", p.get_pressure(q))
except Exception as e: print("pump array RAISES", type(e).__name__, e)
q2 = np.array([-0.01, 0.005, 0.02])
print("pump scalar", [p.get_pressure(x) for x in q2])
try: print("pump array ", p.get_pressure(q2))
except Exception as e: print("pump array RAISES", type(e).__name__, e)
print(p.reg_par)
