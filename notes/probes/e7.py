import numpy as np, pandas as pd, pandapipes as pp, logging, copy
logging.disable(logging.CRITICAL)
from pandapipes.pandapipes_net import Sector
def snap(net):
    return {k: (v.copy() if isinstance(v, pd.DataFrame) else copy.deepcopy(v)) for k,v in net.items() if not k.startswith("_") and k not in ("fluid",)}
def same(a, b):
    if set(a)!=set(b): return "keys differ: %s"%(set(a)^set(b))
    for k in a:
        if isinstance(a[k], pd.DataFrame):
            if not (a[k].shape==b[k].shape and a[k].equals(b[k]) and (a[k].dtypes==b[k].dtypes).all()): return "table %s differs"%k
        elif k=="component_list":
            if a[k]!=b[k]: return "component_list differs"
    return "same"
net = pp.create_empty_network(fluid="water")
j = pp.create_junctions(net, 3, 5, 300)
# 1. create_pipe text_k default
pp.create_pipe(net, j[0], j[1], "100_GGG", 1.0)
pp.create_pipes(net, [j[1]], [j[2]], "100_GGG", 1.0)
pp.create_pipe_from_parameters(net, j[0], j[2], 1.0, 105.8, outer_diameter_mm=118.0)
print(net.pipe[["std_type","text_k","u_w_per_m2k","k_mm","outer_diameter_mm"]]); print(net.pipe.dtypes.to_dict())
# 2. junction geodata atomicity
s = snap(net)
try: pp.create_junction(net, 5, 300, geodata=(1,2,3))
except Exception as e: print("create_junction bad geodata ->", type(e).__name__, "| net", same(s, snap(net)))
# 3. heat sector net: failed create_sink
neth = pp.create_empty_network(fluid="water", sector=Sector.HEAT)
jj = pp.create_junctions(neth, 2, 5, 300)
s = snap(neth)
try: pp.create_sink(neth, 99, 1.0)
except Exception as e: print("create_sink bad junction (heat net) ->", type(e).__name__, "| net", same(s, snap(neth)))
# 4. pressure control uncontrollable
net2 = pp.create_empty_network(fluid="water"); j2 = pp.create_junctions(net2, 3, 5, 300)
s = snap(net2)
r = pp.create_pressure_control(net2, j2[0], j2[1], j2[2], 4.0)
print("press_control uncontrollable -> returned", r, "| net", same(s, snap(net2)), "rows", len(net2.press_control))
try:
    r = pp.create_pressure_control(net2, j2[0], j2[1], 77, 4.0, check_controllability=False); print("pc dangling controlled junction accepted idx", r)
except Exception as e: print("pc dangling ->", type(e).__name__, e)
try:
    r = pp.create_pressure_control(net2, j2[0], j2[1], 77, 4.0); print("pc dangling w/ check returned", r)
except Exception as e: print("pc dangling w/ check ->", type(e).__name__, e)
# 5. duplicate index / nonexisting junction snapshot
s = snap(net)
for fn, kw in [(pp.create_pipe_from_parameters, dict(from_junction=0,to_junction=99,length_km=1,inner_diameter_mm=50)),
               (pp.create_pipe_from_parameters, dict(from_junction=0,to_junction=1,length_km=1,inner_diameter_mm=50,index=0)),
               (pp.create_pipe, dict(from_junction=0,to_junction=1,std_type="nope",length_km=1)),
               (pp.create_valve, dict(junction=0, element=99, et="pi", inner_diameter_mm=50)),
               (pp.create_valve, dict(junction=2, element=0, et="pi", inner_diameter_mm=50)),
               (pp.create_valve, dict(junction=0, element=1, et="xx", inner_diameter_mm=50)),
               (pp.create_ext_grid, dict(junction=0)),
               (pp.create_heat_consumer, dict(from_junction=0,to_junction=1,qext_w=1)),
               ]:
    try: fn(net, **kw); print(fn.__name__, kw, "ACCEPTED")
    except Exception as e: print(fn.__name__, list(kw.items())[-1], "->", type(e).__name__, "| net", same(s, snap(net)))
