import numpy as np, pandas as pd, pandapipes as pp, logging
logging.disable(logging.WARNING)
from pandapipes.constants import *
from pandapipes.component_models.component_toolbox import p_correction_height_air
def build(fluid, seed=0, n=12, extra=8):
    rng=np.random.default_rng(seed)
    net = pp.create_empty_network(fluid=fluid)
    h = rng.uniform(0,50,n)
    j = pp.create_junctions(net, n, pn_bar=rng.uniform(1,10,n), tfluid_k=rng.uniform(283,323,n), height_m=h)
    pp.create_ext_grid(net, j[0], p_bar=8 if fluid=="water" else 2.0, t_k=300)
    # spanning tree
    for i in range(1,n):
        k = rng.integers(0,i)
        pp.create_pipe_from_parameters(net, j[k], j[i], rng.uniform(0.05,1.0), rng.uniform(50,200), k_mm=rng.uniform(0.01,0.5), loss_coefficient=rng.uniform(0,3), sections=int(rng.integers(1,4)))
    for _ in range(extra):
        a,b = rng.choice(n,2,replace=False)
        pp.create_pipe_from_parameters(net, j[a], j[b], rng.uniform(0.05,1.0), rng.uniform(50,200), k_mm=rng.uniform(0.01,0.5), sections=int(rng.integers(1,4)))
    for i in range(1,n):
        if rng.random()<0.6:
            pp.create_sink(net, j[i], rng.uniform(0.0, 0.5 if fluid=="water" else 0.01))
        if rng.random()<0.2:
            pp.create_source(net, j[i], rng.uniform(0.0, 0.3 if fluid=="water" else 0.005))
    return net
for fluid in ["water","lgas","hydrogen"]:
  for fm in ["nikuradse","colebrook","swamee-jain"]:
    for nb in [True, False]:
        net = build(fluid, 1)
        try:
            pp.pipeflow(net, friction_model=fm, use_numba=nb, max_iter_hyd=100, iter=100)
        except Exception as e:
            print(fluid,fm,nb,"FAIL",type(e).__name__, e); continue
        # nodal balance
        bal = pd.Series(0.0, index=net.junction.index)
        for t in ["pipe"]:
            r = net["res_"+t]
            bal = bal.sub(r.mdot_from_kg_per_s.groupby(net[t].from_junction).sum(), fill_value=0)
            bal = bal.sub(r.mdot_to_kg_per_s.groupby(net[t].to_junction).sum(), fill_value=0)
        bal = bal.sub(net.res_sink.mdot_kg_per_s.groupby(net.sink.junction).sum(), fill_value=0)
        bal = bal.add(net.res_source.mdot_kg_per_s.groupby(net.source.junction).sum(), fill_value=0)
        bal = bal.sub(net.res_ext_grid.mdot_kg_per_s.groupby(net.ext_grid.junction).sum(), fill_value=0)
        print(fluid,fm,nb,"iters",net._internal_results["iterations_hydraulics"],"maxbal %.2e"%bal.abs().max(), "resnorm %.2e"%net._internal_results["residual_norm_hydraulics"], "maxflow %.3g"%net.res_pipe.mdot_from_kg_per_s.abs().max())
