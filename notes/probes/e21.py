import numpy as np, pandas as pd, pandapipes as pp, logging
from scipy.optimize import brentq
logging.disable(logging.CRITICAL)
exec(open("e2.py").read().split("for fluid in")[0])
G=9.81; PN=1.01325; TN=273.15
def pamb(h): return PN*(1-h*0.0065/288.15)**5.255
def lam(model, re, k, d, gas):
    nik = 1/(2*np.log10(d/k)+1.14)**2 if gas else 1/(-2*np.log10(k/(3.71*d)))**2
    if model=="nikuradse": return 64/re + nik
    if model=="swamee-jain": return 0.25/np.log10(k/(3.7*d)+5.74/re**0.9)**2
    f = lambda l: l**-0.5 + 2*np.log10(2.51/(re*np.sqrt(l)) + k/(3.71*d))
    return brentq(f, 1e-5, 10.0, xtol=1e-15)
worst = {}
for fluid in ["water","lgas","hydrogen"]:
  for fm in ["nikuradse","colebrook","swamee-jain"]:
    for seed in range(6):
        net = build(fluid, seed); net.pipe["sections"] = 1
        try: pp.pipeflow(net, friction_model=fm, iter=200, tol_p=1e-10, tol_m=1e-10, tol_res=1e-10, tolerance_colebrook=1e-12, max_iter_colebrook=100)
        except Exception as e: print(fluid, fm, seed, "fail", type(e).__name__); continue
        fl = net.fluid; gas = fl.is_gas
        P = net.pipe; R = net.res_pipe; J = net.junction; RJ = net.res_junction
        for i in P.index:
            f, t = P.from_junction[i], P.to_junction[i]
            m = R.mdot_from_kg_per_s[i]; d = P.inner_diameter_mm[i]/1000; A = np.pi*d*d/4; L = P.length_km[i]*1000; k = P.k_mm[i]/1000; z = P.loss_coefficient[i]
            p1 = RJ.p_bar[f]+pamb(J.height_m[f]); p2 = RJ.p_bar[t]+pamb(J.height_m[t]); dh = J.height_m[f]-J.height_m[t]
            T1, T2 = R.t_from_k[i], R.t_outlet_k[i]
            if not gas:
                rho = (fl.get_density(T1)+fl.get_density(T2))/2; eta = fl.get_viscosity((T1+T2)/2)
            else:
                rn = fl.get_density(TN)
                rho = (rn*TN*p1/(T1*PN*fl.get_compressibility(p1)) + rn*TN*p2/(T2*PN*fl.get_compressibility(p2)))/2
                eta = fl.get_viscosity((T1+T2)/2)
            re = abs(m)*d/(eta*A)
            if re < 1e-9: continue
            l = lam(fm, re, k, d, gas)
            if not gas:
                fr = (l*L/d+z)*m*abs(m)/(2*rho*A*A*1e5)
            else:
                pm = 2/3*(p1**3-p2**3)/(p1**2-p2**2) if p1!=p2 else p1
                K = fl.get_compressibility(pm); Tm=(T1+T2)/2   # code: tm = (T_from + TOUT)/2, TOUT = T_to node
                fr = PN/(TN*1e5*rn*A*A)*K*(l*L/d+z)*m*abs(m)*Tm/(p1+p2)
            res = p1-p2+rho*G*dh/1e5-fr
            key=(fluid,fm)
            w = worst.setdefault(key, [0,0,0,0])
            w[0]=max(w[0],abs(res)); w[1]=max(w[1], abs(l-R["lambda"][i])/l); w[2]=max(w[2], abs(re-R.reynolds[i])/re); w[3]=max(w[3],abs(fr))
for k,v in worst.items(): print(k, "max|law residual| %.2e bar  max rel dλ %.2e  max rel dRe %.2e  (max friction term %.3g bar)"%tuple(v))
