import numpy as np, pandas as pd, pandapipes as pp, logging
logging.disable(logging.WARNING)
net = pp.create_empty_network(fluid="water")
j = pp.create_junctions(net, 4, pn_bar=5, tfluid_k=300)
pp.create_ext_grid(net, j[0], p_bar=5, t_k=380)
pp.create_ext_grid(net, j[1], p_bar=5, t_k=290)
pp.create_pipe_from_parameters(net, j[0], j[2], 0.1, 100, u_w_per_m2k=0)
pp.create_pipe_from_parameters(net, j[1], j[2], 0.3, 100, u_w_per_m2k=0)
pp.create_pipe_from_parameters(net, j[2], j[3], 0.1, 100, u_w_per_m2k=0)
pp.create_sink(net, j[3], 3.0)
for nb in (True, False):
    pp.pipeflow(net, iter=100, mode="sequential", use_numba=nb, tol_T=1e-9, tol_res=1e-9)
    f = net.fluid
    m = net.res_pipe.mdot_from_kg_per_s.values; tout = net.res_pipe.t_outlet_k.values
    tm = net.res_junction.t_k[j[2]]
    print("m", m, "tout", tout, "tmix", tm)
    cp = f.get_heat_capacity
    # candidate weightings
    for name, w in [("cp(mean T)", lambda t: cp((t+tm)/2)), ("mean cp", lambda t: (cp(t)+cp(tm))/2), ("const", lambda t: 1.0), ("code cp(cpmean)", lambda t: cp((cp(t)+cp(tm))/2))]:
        res = sum(w(tout[i])*m[i]*(tout[i]-tm) for i in (0,1))
        tw = sum(w(tout[i])*m[i]*tout[i] for i in (0,1))/sum(w(tout[i])*m[i] for i in (0,1))
        print("  %-18s residual %.3e W  implied Tmix %.6f  diff %.3e K"%(name,res,tw,tw-tm))
    print(cp(380.), cp(290.), cp(4180.))
