import numpy as np, pandas as pd, pandapipes as pp, logging
logging.disable(logging.CRITICAL)
G=9.81; PN=1.01325; TN=273.15
def pamb(h): return PN*(1-h*0.0065/288.15)**5.255
T = dict(iter=200, tol_p=1e-10, tol_m=1e-10, tol_res=1e-10)
# --- gas net: two ext grids on one junction, compressor across heights, PC remote, flow control, mass storage
net = pp.create_empty_network(fluid="lgas")
h = [0, 40, 120, 120, 60, 10]
j = pp.create_junctions(net, 6, 1.0, 290, height_m=h)
pp.create_ext_grid(net, j[0], 1.0, 290); pp.create_ext_grid(net, j[0], 1.4, 290); pp.create_ext_grid(net, j[0], 9.0, 290, in_service=False)
pp.create_pipe_from_parameters(net, j[0], j[1], 0.5, 150)
pp.create_compressor(net, j[1], j[2], 1.8)
pp.create_pipe_from_parameters(net, j[2], j[3], 0.8, 150, sections=3)
pp.create_pipe_from_parameters(net, j[4], j[5], 0.4, 150)
pp.create_pressure_control(net, j[3], j[4], j[5], 1.1)
pp.create_sink(net, j[5], 0.05, scaling=1.5); pp.create_mass_storage(net, j[4], 0.01); pp.create_source(net, j[3], 0.005)
pp.pipeflow(net, **T)
rj = net.res_junction.p_bar
print("ext grid junction p", rj[j[0]], "expected mean(1.0,1.4)=1.2")
pa = lambda k: rj[j[k]]+pamb(h[k])
fl = net.fluid; rn = fl.get_density(TN)
rho = lambda k: rn*TN*pa(k)/(290*PN*fl.get_compressibility(pa(k)))
rc = net.res_compressor.iloc[0]
print("compressor: p_to_abs/p_from_abs", pa(2)/pa(1), " with hydrostatic corr", (pa(2) - (rho(1)+rho(2))/2*G*(h[1]-h[2])/1e5)/pa(1), "ratio 1.8 | mdot", rc.mdot_from_kg_per_s)
print("PC controlled p", rj[j[5]], "set 1.1 | res ext grids", net.res_ext_grid.mdot_kg_per_s.values, "| sink", net.res_sink.mdot_kg_per_s.values, "storage", net.res_mass_storage.mdot_kg_per_s.values)
# --- water loop: circ pump pressure across heights
net = pp.create_empty_network(fluid="water"); h=[0,0,30,30]
j = pp.create_junctions(net, 4, 5, 320, height_m=[20, 50, 50, 0])
pp.create_circ_pump_const_pressure(net, j[3], j[0], 6.0, 2.5, 350)
pp.create_pipe_from_parameters(net, j[0], j[1], 0.3, 100); pp.create_flow_control(net, j[1], j[2], 1.2); pp.create_pipe_from_parameters(net, j[2], j[3], 0.3, 100)
pp.pipeflow(net, **T)
rj = net.res_junction.p_bar; hh = net.junction.height_m
rho = (net.fluid.get_density(320.)+net.fluid.get_density(350.))/2
print("circ pump p: gauge lift", rj[j[0]]-rj[j[3]], "| abs lift", rj[j[0]]+pamb(20)-rj[j[3]]-pamb(0), "| abs lift - rho g dh", rj[j[0]]+pamb(20)-rj[j[3]]-pamb(0) - float(rho)*G*(0-20)/1e5, "set 2.5; p_flow", rj[j[0]], "| fc mdot", net.res_flow_control.mdot_from_kg_per_s.values, "pump mdot", net.res_circ_pump_pressure.mdot_from_kg_per_s.values)
print(net.res_circ_pump_pressure[["t_from_k","t_outlet_k"]].values, net.res_junction.t_k.values)
