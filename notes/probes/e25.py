import numpy as np, pandas as pd, pandapipes as pp, logging
logging.disable(logging.CRITICAL)
def loop(mode, pump="p"):
    net = pp.create_empty_network(fluid="water"); j = pp.create_junctions(net, 12, 5, 330)
    if pump=="p": pp.create_circ_pump_const_pressure(net, j[11], j[0], 6, 2.0, 365)
    else: pp.create_circ_pump_const_mass_flow(net, j[11], j[0], 6, 3.0, 365)
    # supply line 0-1-2-3-4-5 ; return line 6-7-8-9-10-11
    for a in range(5): pp.create_pipe_from_parameters(net, j[a], j[a+1], 0.2, 100, u_w_per_m2k=4, text_k=283, sections=2)
    for a in range(6,11): pp.create_pipe_from_parameters(net, j[a], j[a+1], 0.2, 100, u_w_per_m2k=4, text_k=283)
    pp.create_heat_consumer(net, j[1], j[10], controlled_mdot_kg_per_s=0.4, deltat_k=20)      # MF_DT
    pp.create_heat_consumer(net, j[2], j[9], controlled_mdot_kg_per_s=0.5, treturn_k=320)     # MF_TR
    pp.create_heat_consumer(net, j[3], j[8], qext_w=30000, controlled_mdot_kg_per_s=0.6)      # QE_MF
    pp.create_heat_consumer(net, j[4], j[7], qext_w=40000, deltat_k=25)                       # QE_DT
    if pump=="p": pp.create_heat_consumer(net, j[5], j[6], qext_w=35000, treturn_k=318)       # QE_TR
    else: pp.create_heat_exchanger(net, j[5], j[6], 20000, 80)
    pp.pipeflow(net, mode=mode, iter=200, tol_p=1e-9, tol_m=1e-9, tol_res=1e-8, tol_T=1e-9)
    return net
cp = None
for pump in "pm":
  for mode in ["sequential","bidirectional"]:
    try: net = loop(mode, pump)
    except Exception as e: print(pump, mode, type(e).__name__, str(e)[:80]); continue
    cp = net.fluid.get_heat_capacity
    r = net.res_heat_consumer; t = net.heat_consumer
    q_id = r.mdot_from_kg_per_s*(cp(r.t_from_k)+cp(r.t_outlet_k))/2*(r.t_from_k-r.t_outlet_k)
    print(pump, mode)
    print("   consumer qext reported", r.qext_w.round(3).values, "\n   m*cp*dT            ", q_id.round(3).values, "\n   deltat reported", r.deltat_k.round(5).values, "t_from-t_outlet", (r.t_from_k-r.t_outlet_k).round(5).values)
    print("   setpoints: mdot", t.controlled_mdot_kg_per_s.values, "->", r.mdot_from_kg_per_s.round(6).values, "| qext", t.qext_w.values, "| deltat", t.deltat_k.values, "| treturn", t.treturn_k.values, "->", r.t_outlet_k.round(5).values)
    rp = net.res_pipe; qp = (rp.mdot_from_kg_per_s*(cp(rp.t_from_k)+cp(rp.t_outlet_k))/2*(rp.t_from_k-rp.t_outlet_k)).sum()
    qhe = 0
    if len(net.heat_exchanger): rh=net.res_heat_exchanger; qhe=(rh.mdot_from_kg_per_s*(cp(rh.t_from_k)+cp(rh.t_outlet_k))/2*(rh.t_from_k-rh.t_outlet_k)).sum(); print("   HE input qext", net.heat_exchanger.qext_w.values, "m cp dT", qhe)
    rc = net["res_circ_pump_pressure" if pump=="p" else "res_circ_pump_mass"].iloc[0]
    qpump_id = rc.mdot_from_kg_per_s*(cp(rc.t_from_k)+cp(rc.t_outlet_k))/2*(rc.t_outlet_k-rc.t_from_k)
    print("   pump qext reported %.1f | m cp_mean dT %.1f | sum consumers %.1f + pipes %.1f + HE %.1f = %.1f"%(rc.qext_w, qpump_id, q_id.sum(), qp, qhe, q_id.sum()+qp+qhe))
