import numpy as np, sys, logging
logging.disable(logging.CRITICAL)
import pandapipes as pp
pf = sys.modules["pandapipes.pipeflow"]
from pandapipes.idx_branch import MDOTINIT
from pandapipes.idx_node import PINIT, MDOTSLACKINIT
def drive(err_seq, res_seq, method="automatic", max_iter=10, tol=1e-5, tol_res=1e-3):
    net = pp.create_empty_network(fluid="water")
    net["_options"] = dict(max_iter_hyd=max_iter, nonlinear_method=method, tol_res=tol_res, alpha=1)
    net["_active_pit"] = {"branch": np.zeros((1, 40)), "node": np.zeros((1, 20))}
    net.converged = False
    state = {"k": 0, "alphas": []}
    def funct(net):
        k = state["k"]; state["k"] += 1
        a = net["_options"]["alpha"]; state["alphas"].append(a)
        e = err_seq[min(k, len(err_seq)-1)]; r = res_seq[min(k, len(res_seq)-1)]
        old = np.array([0.0]); new = old + e   # dval = e (the applied, already damped change as the solver reports it)
        return [new, old, new, old, new, old], np.array([r]), [None, None, np.array([0])]
    pf.newton_raphson(net, funct, "hydraulics", ["mdot","p","mdotslack"], [tol,tol,tol], ["branch","node","node"], "max_iter_hyd")
    return net.converged, net._internal_results["iterations_hydraulics"], state["alphas"], net._options["alpha"]
print(drive([1.0, 2.0, 1e-6, 1e-6], [1e-9]*4))
print(drive([1.0, 2.0, 3.0, 1e-6, 1e-6], [1e-9]*5))
print(drive([1e-6], [1e-9]))
print(drive([float("nan")]*3, [1e-9]*3, max_iter=3))
print(drive([1e-6], [float("nan")], max_iter=3))
print(drive([1e-6], [1.0], max_iter=3))
