import numpy as np, pandas as pd, pandapipes as pp, logging
logging.disable(logging.WARNING)
def mk(idx_a, idx_b, order):
    net = pp.create_empty_network(fluid="water")
    j = pp.create_junctions(net, 3, pn_bar=5, tfluid_k=300)
    pp.create_ext_grid(net, j[0], p_bar=5, t_k=350)
    specs = {"a": dict(f=j[0], t=j[1], L=0.5, s=3, idx=idx_a), "b": dict(f=j[1], t=j[2], L=1.0, s=1, idx=idx_b)}
    for k in order:
        s = specs[k]
        pp.create_pipe_from_parameters(net, s["f"], s["t"], s["L"], 100, sections=s["s"], u_w_per_m2k=10, text_k=280, index=s["idx"], name=k)
    pp.create_sink(net, j[2], 1.0)
    pp.pipeflow(net, iter=100, mode="sequential")
    r = net.res_pipe.copy(); r["name"]=net.pipe.name
    return r.set_index("name")[["t_to_k","t_outlet_k"]].sort_index().values.round(4).tolist()
print(mk(0,1,"ab")); print(mk(5,2,"ab")); print(mk(2,5,"ba")); print(mk(5,2,"ba"))
