import numpy as np, pandas as pd, logging, sys
logging.disable(logging.CRITICAL)
import pandapipes as pp
from pandapipes.idx_node import MDOTSLACKINIT, NODE_TYPE, P
def loop(pump, extra_sink=0.0, auto=False, mode="sequential"):
    net = pp.create_empty_network(fluid="water"); j = pp.create_junctions(net, 6, 5, 320)
    if pump == "p": pp.create_circ_pump_const_pressure(net, j[5], j[0], 5, 1.5, 360)
    else: pp.create_circ_pump_const_mass_flow(net, j[5], j[0], 5, 2.0, 360)
    pp.create_pipe_from_parameters(net, j[0], j[1], 0.3, 100, u_w_per_m2k=3, sections=2)
    pp.create_pipe_from_parameters(net, j[1], j[2], 0.3, 80, u_w_per_m2k=3)
    pp.create_heat_consumer(net, j[1], j[4], qext_w=30000, controlled_mdot_kg_per_s=0.6)
    pp.create_heat_consumer(net, j[2], j[3], qext_w=50000, deltat_k=25) if pump=="p" else pp.create_heat_exchanger(net, j[2], j[3], 40000, 80)
    pp.create_pipe_from_parameters(net, j[3], j[4], 0.3, 80, u_w_per_m2k=3)
    pp.create_pipe_from_parameters(net, j[4], j[5], 0.3, 100, u_w_per_m2k=3)
    if extra_sink: pp.create_sink(net, j[3], extra_sink)
    pp.pipeflow(net, mode=mode, iter=100, nonlinear_method="automatic" if auto else "constant")
    fj = j[0]
    idx = net._lookups["node_index"]["junction"][fj]
    print(pump, "extra", extra_sink, mode, "auto" if auto else "const", "| pump mdot", net["res_circ_pump_pressure" if pump=="p" else "res_circ_pump_mass"].mdot_from_kg_per_s.values, "| slack col at flow junction", net._pit["node"][idx, MDOTSLACKINIT], "| pipe0 mdot", net.res_pipe.mdot_from_kg_per_s.values[0])
    return net
for pump in "pm":
    loop(pump); 
    try: loop(pump, 0.3)
    except Exception as e: print(pump, "extra sink ->", type(e).__name__, str(e)[:90])
for pump in "pm":
    for mode in ["bidirectional"]:
        for auto in (False, True):
            try: loop(pump, 0.0, auto, mode)
            except Exception as e: print(pump, mode, auto, "->", type(e).__name__, str(e)[:120])
