import numpy as np, pandas as pd, pandapipes as pp, logging, copy
logging.disable(logging.CRITICAL)
from pandapipes.pf.pipeflow_setup import default_options
import pandapipes.networks as nw
def mk():
    net = pp.create_empty_network(fluid="water")
    j = pp.create_junctions(net, 4, 5, 300)
    pp.create_ext_grid(net, j[0], p_bar=5, t_k=350)
    pp.create_pipe_from_parameters(net, j[0], j[1], 0.5, 100, u_w_per_m2k=5, sections=2)
    pp.create_pipe_from_parameters(net, j[1], j[2], 0.5, 80, u_w_per_m2k=5)
    pp.create_pipe_from_parameters(net, j[0], j[2], 0.7, 80, u_w_per_m2k=5)
    pp.create_pipe_from_parameters(net, j[2], j[3], 0.7, 80, u_w_per_m2k=5)
    pp.create_sink(net, j[3], 2.0); pp.create_sink(net, j[1], 1.0)
    return net
def res(net): return {k: net[k].copy() for k in net if k.startswith("res_")}
def anynum(net): return {k: int(net[k].notna().values.sum()) for k in net if k.startswith("res_") and net[k].notna().values.any()}
net = mk()
pp.pipeflow(net, mode="sequential", iter=50); r0 = res(net); print("ok converged", net.converged, net.user_pf_options)
try: pp.pipeflow(net, mode="sequential", max_iter_hyd=2)
except Exception as e: print("fail:", type(e).__name__, "| converged", net.converged, "| numbers left", anynum(net), "| user_pf_options", net.user_pf_options)
# heat mode after failed hydraulics -> hyd_flag remains True from earlier?
try:
    pp.pipeflow(net, mode="heat", sol_vec=np.zeros(5+6)); print("heat mode after failed hyd RAN, converged", net.converged)
except Exception as e: print("heat after fail:", type(e).__name__, e)
# repeat bit-identical
net = mk(); pp.pipeflow(net, mode="sequential", iter=50); a = res(net); pp.pipeflow(net, mode="sequential", iter=50); b = res(net)
print("repeat identical:", all(a[k].equals(b[k]) for k in a))
# history: bidirectional then sequential vs fresh sequential
net = mk(); pp.pipeflow(net, mode="bidirectional", iter=50); pp.pipeflow(net, mode="hydraulics", iter=50, friction_model="colebrook"); pp.pipeflow(net, mode="sequential", iter=50); c = res(net)
print("after history identical:", {k: a[k].equals(c[k]) for k in a})
print("default_options untouched", default_options["alpha"], default_options["mode"])
# options: automatic nonlinear method alpha leak?
net = mk(); pp.pipeflow(net, mode="sequential", iter=50, nonlinear_method="automatic"); print("alpha after automatic", net._options["alpha"], "default", default_options["alpha"]); d=res(net)
print("automatic vs constant max diff", max(float((a[k]-d[k]).abs().max().max()) for k in a))
