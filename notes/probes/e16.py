import numpy as np, pandas as pd, pandapipes as pp, logging
logging.disable(logging.CRITICAL)
import pandapipes.topology as top
# (a) flow control active as sole connection
net = pp.create_empty_network(fluid="water"); j = pp.create_junctions(net, 4, 5, 300)
pp.create_ext_grid(net, j[0], 5, 300)
pp.create_pipe_from_parameters(net, j[0], j[1], 0.1, 100)
pp.create_flow_control(net, j[1], j[2], 0.5)
pp.create_pipe_from_parameters(net, j[2], j[3], 0.1, 100)
pp.create_sink(net, j[3], 0.5)
try: pp.pipeflow(net); print("FC sole connection: solver NaN at", net.res_junction.index[net.res_junction.p_bar.isna()].tolist(), "| unsupplied_junctions:", top.unsupplied_junctions(net))
except Exception as e: print("FC:", type(e).__name__, e)
# (b) t-type ext grid only island
net = pp.create_empty_network(fluid="water"); j = pp.create_junctions(net, 4, 5, 300)
pp.create_ext_grid(net, j[0], 5, 300); pp.create_pipe_from_parameters(net, j[0], j[1], 0.1, 100); pp.create_sink(net, j[1], 0.5)
pp.create_ext_grid(net, j[2], t_k=330, type="t"); pp.create_pipe_from_parameters(net, j[2], j[3], 0.1, 100)
pp.pipeflow(net); print("t-ext-grid island: solver NaN at", net.res_junction.index[net.res_junction.p_bar.isna()].tolist(), "| unsupplied:", top.unsupplied_junctions(net))
# (c) circ pump as supply
net = pp.create_empty_network(fluid="water"); j = pp.create_junctions(net, 3, 5, 300)
pp.create_circ_pump_const_pressure(net, j[2], j[0], 5, 1, 350); pp.create_pipe_from_parameters(net, j[0], j[1], 0.1, 100); pp.create_heat_exchanger(net, j[1], j[2], 1000, 100)
pp.pipeflow(net); print("circ pump net: solver NaN at", net.res_junction.index[net.res_junction.p_bar.isna()].tolist(), "| unsupplied:", top.unsupplied_junctions(net))
# (d) pressure controller direction
net = pp.create_empty_network(fluid="water"); j = pp.create_junctions(net, 3, 5, 300)
pp.create_ext_grid(net, j[2], 5, 300)
pp.create_pipe_from_parameters(net, j[2], j[1], 0.1, 100)
pp.create_pressure_control(net, j[0], j[1], j[1], 3.0, check_controllability=False)   # from j0 -> to j1 ; j0 only reachable against direction
try: pp.pipeflow(net); print("PC reverse: solver NaN at", net.res_junction.index[net.res_junction.p_bar.isna()].tolist(), "| unsupplied:", top.unsupplied_junctions(net))
except Exception as e: print("PC reverse:", type(e).__name__, str(e)[:120], "| unsupplied:", top.unsupplied_junctions(net))
# (e) pump density at elevated temperature
for T in (283., 353.):
    net = pp.create_empty_network(fluid="water"); j = pp.create_junctions(net, 3, 5, T)
    pp.create_ext_grid(net, j[0], 5, T); pp.create_pump(net, j[0], j[1], "P1"); pp.create_pipe_from_parameters(net, j[1], j[2], 0.1, 100); pp.create_sink(net, j[2], 10.0)
    pp.pipeflow(net, iter=50, tol_p=1e-10, tol_m=1e-10)
    r = net.res_pump.iloc[0]; p = net.std_types["pump"]["P1"]
    print("pump T=%g: deltap %.6f  curve(vdot reported) %.6f  curve(m/rho(273.15)) %.6f"%(T, r.deltap_bar, p.get_pressure(r.vdot_m3_per_s), p.get_pressure(r.mdot_from_kg_per_s/net.fluid.get_density(273.15))))
