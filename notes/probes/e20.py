import inspect, re, logging
logging.disable(logging.CRITICAL)
import pandapipes as pp, numpy as np
fns = [getattr(pp, n) for n in dir(pp) if n.startswith("create_") and callable(getattr(pp, n))]
tot=0; mism=[]
for f in fns:
    try: sig = inspect.signature(inspect.unwrap(f) if hasattr(f, "__wrapped__") else f)
    except Exception: continue
    g = f
    # deprecated_input wrapper hides signature: dig closure
    if f.__name__ == "wrap":
        g = [c.cell_contents for c in f.__closure__ if callable(c.cell_contents) and getattr(c.cell_contents, "__name__", "").startswith("create_")][0]
        sig = inspect.signature(g)
    doc = g.__doc__ or ""
    for name, par in sig.parameters.items():
        if par.default is inspect._empty or name in ("kwargs",): continue
        m = re.search(r":type %s:[^\n]*?default:? ([^\n,]+)" % re.escape(name), doc)
        tot += 1
        if not m: mism.append((g.__name__, name, repr(par.default), "NO DOC DEFAULT")); continue
        d = m.group(1).strip().strip('"\'').rstrip(".")
        dv = repr(par.default).strip('"\'')
        ok = d == dv or (d in ("None",) and par.default is None) or (d.replace(" mm","") == dv)
        try: ok = ok or float(d) == float(par.default)
        except Exception: pass
        if d == "np.inf" and par.default == np.inf: ok = True
        if not ok: mism.append((g.__name__, name, repr(par.default), "doc: "+d))
print("params with defaults:", tot, "mismatch/undocumented:", len(mism))
for m in mism: print("  ", m)
