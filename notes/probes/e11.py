import numpy as np, pandas as pd, pandapipes as pp, logging, copy, tempfile, time
logging.disable(logging.CRITICAL)
from pandapower.control import ConstControl
from pandapower.timeseries import DFData, OutputWriter
from pandapipes.timeseries import run_timeseries
def mk():
    net = pp.create_empty_network(fluid="water")
    j = pp.create_junctions(net, 4, 5, 300)
    pp.create_ext_grid(net, j[0], p_bar=5, t_k=350)
    pp.create_pipe_from_parameters(net, j[0], j[1], 0.5, 100)
    pp.create_pipe_from_parameters(net, j[1], j[2], 0.5, 80)
    pp.create_pipe_from_parameters(net, j[2], j[3], 0.7, 80)
    pp.create_sink(net, j[3], 2.0); pp.create_sink(net, j[1], 1.0)
    return net
net = mk()
prof = pd.DataFrame({"s0": [1.0, 2.0, 1e5, 0.5, 3.0], "s1": [0.1, 0.2, 0.3, 0.4, 0.5]})
ds = DFData(prof)
ConstControl(net, "sink", "mdot_kg_per_s", element_index=[0,1], profile_name=["s0","s1"], data_source=ds)
ow = OutputWriter(net, time_steps=range(5), output_path=None, log_variables=[("res_junction","p_bar"),("res_pipe","mdot_from_kg_per_s"),("res_ext_grid","mdot_kg_per_s")])
t=time.time()
run_timeseries(net, time_steps=range(5), continue_on_divergence=True, verbose=False, iter=30)
print("took", time.time()-t)
print(ow.np_results["res_junction.p_bar"] if hasattr(ow,"np_results") else None)
print(ow.output["res_junction.p_bar"])
print(ow.output.keys())
print(ow.output.get("Parameters"))
for s in range(5):
    n2 = mk(); n2.sink.loc[[0,1],"mdot_kg_per_s"] = prof.loc[s].values
    try: pp.pipeflow(n2, iter=30); print(s, n2.res_junction.p_bar.values)
    except Exception as e: print(s, type(e).__name__)
