import numpy as np, pandas as pd, logging, copy, time
logging.disable(logging.CRITICAL)
import pandapipes as pp, pandapower as ppow
from pandapower import networks as e_nw
from pandapipes import networks as g_nw
from pandapipes.multinet.control.controller.multinet_control import P2GControlMultiEnergy, G2PControlMultiEnergy, GasToGasConversion
from pandapipes.multinet.control.run_control_multinet import run_control, prepare_run_ctrl
from pandapipes.multinet.create_multinet import create_empty_multinet, add_nets_to_multinet
def gas(fluid="hgas"):
    n = g_nw.gas_meshed_square(); pp.create_fluid_from_lib(n, fluid, overwrite=True); n.sink.drop(index=0, inplace=True)
    n.junction.pn_bar = 30; n.ext_grid.p_bar = 30; n.pipe.inner_diameter_mm = 800; return n
def power():
    n = e_nw.example_simple(); n.sgen.drop(index=0, inplace=True); n.load.drop(index=0, inplace=True); n.gen.drop(index=0, inplace=True); return n
t=time.time()
ng, npw = gas(), power()
mn = create_empty_multinet("t"); add_nets_to_multinet(mn, power=npw, gas=ng)
l = ppow.create_loads(npw, [6, 5], p_mw=[50, 20], scaling=[0.5, 1.5])
s = pp.create_sources(ng, [1, 2], 0.0)
sk = pp.create_sink(ng, 3, 0.2, scaling=0.7); sg = ppow.create_sgen(npw, 4, p_mw=0)
P2GControlMultiEnergy(mn, l, s, efficiency=0.6, order=0)
G2PControlMultiEnergy(mn, sg, sk, efficiency=0.4, order=1)
cv = prepare_run_ctrl(mn, None)
run_control(mn, ctrl_variables=cv, iter=30)
print("took", time.time()-t, "converged", cv["converged"], {k: v["converged"] for k,v in cv["nets"].items()})
hhv = ng.fluid.get_property("hhv")
print("source written", ng.source.mdot_kg_per_s.values, "expected", np.array([50*0.5, 20*1.5])*1e3/(hhv*3600)*0.6)
print("sgen written", npw.sgen.p_mw.values, "expected", 0.2*0.7*hhv*3600/1e3*0.4)
g2 = copy.deepcopy(ng); pp.pipeflow(g2, iter=30); print("gas standalone equal:", all(g2[k].equals(ng[k]) for k in ng if k.startswith("res_")))
p2 = copy.deepcopy(npw); ppow.runpp(p2); print("power standalone max diff:", float((p2.res_bus.vm_pu-npw.res_bus.vm_pu).abs().max()))
# infeasible gas net: huge sink
ng.sink.loc[sk, "mdot_kg_per_s"] = 1e6
cv = prepare_run_ctrl(mn, None)
try:
    run_control(mn, ctrl_variables=cv, iter=30); print("infeasible: returned; converged", cv["converged"], {k: v["converged"] for k,v in cv["nets"].items()}, "gas.converged", ng.converged)
except Exception as e: print("infeasible ->", type(e).__name__, str(e)[:80], "| cv converged", cv["converged"], "gas.converged", ng.converged, "power.converged", npw.converged)
