import numpy as np, pandas as pd, logging, sys
logging.disable(logging.CRITICAL)
import pandapipes as pp
from pandapipes import _verif
from pandapipes.timeseries import run_timeseries
ev = []
_verif.register(lambda e, kw: ev.append((e, {k: v for k, v in kw.items() if k != "net"})))
exec(open("e2.py").read().split("for fluid in")[0])
bad = 0; tot = 0; conv=0
for seed in range(40):
    for fluid in ["water", "lgas"]:
        net = build(fluid, seed)
        ev.clear()
        try: pp.pipeflow(net, iter=60, nonlinear_method="automatic")
        except Exception as e: pass
        its = [kw for e, kw in ev if e == "nr_iter"]
        tot += 1
        if its and its[-1]["converged"]:
            conv += 1
            if its[-1]["alpha_used"] != 1:
                bad += 1; print("damped accept:", fluid, seed, [(i["alpha_used"], max(i["errors"].values())) for i in its[-3:]])
print("runs", tot, "converged", conv, "accepted on damped step", bad, "| events per run e.g.", [e for e,_ in ev][:4], "...")
