import numpy as np, pandas as pd, pandapipes as pp, logging, itertools, copy
logging.disable(logging.CRITICAL)
def base():
    net = pp.create_empty_network(fluid="water")
    j = pp.create_junctions(net, 7, 5, 300, name=["j%d"%i for i in range(7)])
    pp.create_ext_grid(net, j[0], 5, 300, name="eg0"); pp.create_ext_grid(net, j[6], 4.5, 300, name="eg1")
    pp.create_pipe_from_parameters(net, j[0], j[1], 0.2, 100, name="p0")
    pp.create_pipe_from_parameters(net, j[1], j[2], 0.2, 100, name="p1", sections=2)
    pp.create_valve(net, j[2], j[3], "ju", 100, name="v0")
    pp.create_flow_control(net, j[1], j[4], 0.3, name="fc0")
    pp.create_pipe_from_parameters(net, j[4], j[3], 0.2, 100, name="p2")
    pp.create_pressure_control(net, j[3], j[5], j[5], 3.0, name="pc0", check_controllability=False)
    pp.create_pipe_from_parameters(net, j[5], j[6], 0.2, 100, name="p3")
    pp.create_valve(net, j[5], 3, "pi", 100, name="v1")     # at junction 5 on pipe p3 (index 3)
    for k,(jj,m) in enumerate([(2,0.2),(3,0.3),(4,0.1),(5,0.2)]): pp.create_sink(net, j[jj], m, name="s%d"%k)
    return net
flags = [("junction",3,"in_service"),("pipe",0,"in_service"),("pipe",1,"in_service"),("pipe",2,"in_service"),("pipe",3,"in_service"),("valve",0,"opened"),("valve",1,"opened"),("flow_control",0,"control_active"),("flow_control",0,"in_service"),("press_control",0,"in_service"),("ext_grid",0,"in_service"),("ext_grid",1,"in_service")]
def model(net):
    J = set(net.junction.index)
    adj = {j: set() for j in J}   # directed adjacency
    def und(a,b): adj[a].add(b); adj[b].add(a)
    closed_pi = {(r.junction, r.element) for r in net.valve.itertuples() if r.et=="pi" and not r.opened}
    for r in net.pipe.itertuples():
        if not r.in_service: continue
        if any((jj, r.Index) in closed_pi for jj in (r.from_junction, r.to_junction)): continue
        und(r.from_junction, r.to_junction)
    for r in net.valve.itertuples():
        if r.et=="ju" and r.opened: und(r.junction, r.element)
    for r in net.flow_control.itertuples():
        if r.in_service and not r.control_active: und(r.from_junction, r.to_junction)
    for r in net.press_control.itertuples():
        if r.in_service: adj[r.from_junction].add(r.to_junction)
    start = [r.junction for r in net.ext_grid.itertuples() if r.in_service and r.type in ("p","pt") and net.junction.in_service[r.junction]]
    seen=set(start); st=list(start)
    while st:
        a=st.pop()
        for b in adj[a]:
            if b not in seen: seen.add(b); st.append(b)
    return seen
tot=mis=exc=0; samples=[]
rng=np.random.default_rng(0)
pats = [tuple(rng.integers(0,2,len(flags))) for _ in range(400)]
for pat in pats:
    net = base()
    for (t,i,c),v in zip(flags,pat): net[t].loc[i,c]=bool(v)
    sup = model(net)
    try:
        pp.pipeflow(net, iter=100)
        got = set(net.res_junction.index[net.res_junction.p_bar.notna()])
    except Exception as e:
        got = ("EXC", type(e).__name__); 
    tot+=1
    if got != sup and not (isinstance(got, tuple) and (len(sup)==0)):
        mis+=1
        if len(samples)<6: samples.append((pat, sorted(sup), got if isinstance(got,tuple) else sorted(got)))
print("patterns", tot, "mismatch", mis); 
for s in samples: print(s)
