exec(open("e26.py").read().split("for fluid in")[0])
fluid="water"
for seed in range(3):
    S = spec(seed, fluid); a = build(S); pp.pipeflow(a, **T); pj, pm = res(a)
    for P in S["P"]:
        c = build(S, reverse={P["name"]}); pp.pipeflow(c, **T); rj, rm = res(c)
        d = (pj-rj).abs().max()
        if d > 1e-9: print(seed, "reverse", P, "-> max|dp| %.3e"%d, "flow", pm[P["name"]], rm[P["name"]], "dh", S["J"][P["f"]]["h"]-S["J"][P["t"]]["h"], "T", S["J"][P["f"]]["T"], S["J"][P["t"]]["T"])
