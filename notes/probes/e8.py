import numpy as np, pandas as pd, pandapipes as pp, logging, copy
logging.disable(logging.CRITICAL)
import pandapipes.topology as top
def mk():
    net = pp.create_empty_network(fluid="water")
    j = pp.create_junctions(net, 5, 5, 300, index=[10,11,12,13,14])
    pp.create_ext_grid(net, 10, p_bar=5, t_k=300)
    pp.create_pipe_from_parameters(net, 10, 11, 0.5, 100, index=11)   # pipe index 11 coincides with junction 11
    pp.create_pipe_from_parameters(net, 11, 12, 0.5, 100, index=3)
    pp.create_pipe_from_parameters(net, 12, 13, 0.5, 100, index=13)
    pp.create_valve(net, 11, 3, "pi", 100, opened=True)     # junction 11 -- pipe 3
    pp.create_valve(net, 12, 13, "pi", 100, opened=True)    # junction 12 -- pipe 13
    pp.create_valve(net, 13, 14, "ju", 100, opened=True)
    pp.create_sink(net, 14, 1.0)
    return net
net = mk(); pp.pipeflow(net, iter=50); print(net.res_junction.p_bar.round(5).to_dict())
print("valve table\n", net.valve[["junction","element","et","opened"]])
# C18 graph
mg = top.create_nxgraph(net)
print("edges:", sorted((u,v,k) for u,v,k in mg.edges(keys=True)))
print("nodes:", sorted(mg.nodes()))
net.valve.loc[0,"opened"]=False
mg = top.create_nxgraph(net); print("closed pi valve 0 -> edges:", sorted((u,v,k) for u,v,k in mg.edges(keys=True)))
print("unsupplied:", top.unsupplied_junctions(net))
try:
    pp.pipeflow(net, iter=50); print("solver NaN junctions:", net.res_junction.index[net.res_junction.p_bar.isna()].tolist())
except Exception as e: print("pipeflow", type(e).__name__, e)
# C17 reindex
net = mk()
try:
    pp.reindex_junctions(net, {10:100, 11:101, 12:102, 13:103, 14:104})
    print("after reindex_junctions valve:\n", net.valve[["junction","element","et"]])
except Exception as e: print("reindex_junctions ->", type(e).__name__, e)
net = mk()
pp.drop_pipes(net, [3]); print("after drop_pipes([3]) valve rows:\n", net.valve[["junction","element","et"]])
net = mk()
pp.drop_junctions(net, [14]); print("after drop_junctions([14]) pipes", net.pipe.index.tolist(), "valves\n", net.valve[["junction","element","et"]])
net = mk()
pp.drop_junctions(net, [13]); print("after drop_junctions([13]) pipes", net.pipe.index.tolist(), "valves\n", net.valve[["junction","element","et"]])
