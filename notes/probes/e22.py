import numpy as np, pandas as pd, pandapipes as pp, logging
logging.disable(logging.CRITICAL)
def heatnet(seed, mode):
    rng = np.random.default_rng(seed)
    net = pp.create_empty_network(fluid="water"); n = 7
    j = pp.create_junctions(net, n, 5, rng.uniform(290, 340, n))
    pp.create_ext_grid(net, j[0], 6, 370); pp.create_ext_grid(net, j[1], 5.9, 330)
    edges = [(0,2),(1,2),(2,3),(3,4),(2,4),(4,5),(1,5),(5,6),(3,6)]
    for a,b in edges:
        pp.create_pipe_from_parameters(net, j[a], j[b], rng.uniform(0.1,0.6), rng.uniform(60,120), u_w_per_m2k=rng.uniform(0,20), text_k=rng.uniform(270,290), sections=1, outer_diameter_mm=130.)
    for k in (3,4,5,6): pp.create_sink(net, j[k], rng.uniform(0.2,1.5))
    pp.pipeflow(net, mode=mode, iter=200, tol_p=1e-10, tol_m=1e-10, tol_res=1e-9, tol_T=1e-10)
    return net
cp = None
for mode in ["sequential","bidirectional"]:
  wc=wm=wm2=0; nrev=0; nmix=0
  for seed in range(12):
    try: net = heatnet(seed, mode)
    except Exception as e: print(mode, seed, type(e).__name__, str(e)[:60]); continue
    fl = net.fluid; cp = fl.get_heat_capacity
    P, R, RJ = net.pipe, net.res_pipe, net.res_junction
    inflow = {}
    for i in P.index:
        m = R.mdot_from_kg_per_s[i]
        if abs(m) < 1e-9: continue
        up, dn = (P.from_junction[i], P.to_junction[i]) if m > 0 else (P.to_junction[i], P.from_junction[i])
        nrev += m < 0
        Tin, Tout = RJ.t_k[up], R.t_outlet_k[i]
        c = (cp(Tin)+cp(Tout))/2; a = P.u_w_per_m2k[i]*np.pi*P.outer_diameter_mm[i]/1000; L = P.length_km[i]*1000; Te = P.text_k[i]
        wc = max(wc, abs(Te + (Tin-Te)*np.exp(-a*L/(c*abs(m))) - Tout))
        inflow.setdefault(dn, []).append((abs(m), Tout))
    for jn, lst in inflow.items():
        if jn in net.ext_grid.junction.values or len(lst) < 2: continue
        nmix += 1; Tm = RJ.t_k[jn]
        code = sum(mm*cp((cp(T)+cp(Tm))/2)*(T-Tm) for mm,T in lst); right = sum(mm*(cp(T)+cp(Tm))/2*(T-Tm) for mm,T in lst)
        wm = max(wm, abs(code)); wm2 = max(wm2, abs(right))
  print(mode, "cooling-law max residual %.2e K | mixing residual with code's weighting %.2e W, with energy-conserving weighting %.2e W | reverse-flow pipes %d, mixing junctions %d"%(wc, wm, wm2, nrev, nmix))
