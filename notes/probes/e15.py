import numpy as np, pandas as pd, pandapipes as pp, logging
logging.disable(logging.CRITICAL)
exec(open("e2.py").read().split("for fluid in")[0])
for fluid in ["water","lgas"]:
    net = build(fluid, 3); ref = build(fluid, 3)
    pp.pipeflow(net, iter=100, only_update_hydraulic_matrix=True, reuse_internal_data=True)
    print(fluid, "_internal_data kept:", "_internal_data" in net, list(net.get("_internal_data",{}).keys()))
    for k in range(3):
        net.sink["mdot_kg_per_s"] *= 1.3; ref.sink["mdot_kg_per_s"] *= 1.3
        pp.pipeflow(net, iter=100, only_update_hydraulic_matrix=True, reuse_internal_data=True)
        pp.pipeflow(ref, iter=100)
        d = max((net[t]-ref[t]).abs().max().max() for t in ["res_junction","res_pipe","res_ext_grid"])
        print("  step",k,"max diff", d, "iters", net._internal_results["iterations_hydraulics"], ref._internal_results["iterations_hydraulics"])
    # now take a pipe out of service while reusing internal data -> structure changed
    net.pipe.loc[net.pipe.index[-1],"in_service"]=False; ref.pipe.loc[ref.pipe.index[-1],"in_service"]=False
    try:
        pp.pipeflow(net, iter=100, only_update_hydraulic_matrix=True, reuse_internal_data=True); pp.pipeflow(ref, iter=100)
        d = max((net[t]-ref[t]).abs().max().max() for t in ["res_junction","res_pipe","res_ext_grid"]); print("  after outage diff", d)
    except Exception as e: print("  after outage:", type(e).__name__, str(e)[:100])
