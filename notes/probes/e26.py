import numpy as np, pandas as pd, pandapipes as pp, logging
logging.disable(logging.CRITICAL)
T = dict(iter=200, tol_p=1e-10, tol_m=1e-10, tol_res=1e-10)
def spec(seed, fluid):
    rng=np.random.default_rng(seed); n=10
    S = dict(fluid=fluid, J=[dict(name="j%d"%i, pn=float(rng.uniform(1,8)), T=float(rng.uniform(285,320)), h=float(rng.uniform(0,60))) for i in range(n)], P=[], S=[], E=[dict(j=0,p=6.0 if fluid=="water" else 2.0,t=300.)])
    k=0
    for i in range(1,n):
        S["P"].append(dict(name="p%d"%k, f=int(rng.integers(0,i)), t=i, L=float(rng.uniform(0.05,0.8)), d=float(rng.uniform(60,180)), k=float(rng.uniform(0.01,0.4)), z=0.0, sec=int(rng.integers(1,4)))); k+=1
    for _ in range(5):
        a,b = rng.choice(n,2,replace=False); S["P"].append(dict(name="p%d"%k, f=int(a), t=int(b), L=float(rng.uniform(0.05,0.8)), d=float(rng.uniform(60,180)), k=float(rng.uniform(0.01,0.4)), z=0.0, sec=int(rng.integers(1,4)))); k+=1
    for i in range(1,n):
        if rng.random()<0.7: S["S"].append(dict(name="s%d"%i, j=i, m=float(rng.uniform(0.01, 0.6 if fluid=="water" else 0.01))))
    return S
def build(S, jmap=None, perm_seed=None, reverse=(), split=()):
    net = pp.create_empty_network(fluid=S["fluid"])
    jm = jmap or {i:i for i in range(len(S["J"]))}
    order = list(range(len(S["J"])))
    rng = np.random.default_rng(perm_seed) if perm_seed is not None else None
    if rng is not None: rng.shuffle(order)
    for i in order:
        J=S["J"][i]; pp.create_junction(net, J["pn"], J["T"], J["h"], name=J["name"], index=jm[i])
    porder = list(range(len(S["P"])))
    if rng is not None: rng.shuffle(porder)
    nextj = max(jm.values())+1
    for pi in porder:
        P=S["P"][pi]; f,t = (P["t"],P["f"]) if P["name"] in reverse else (P["f"],P["t"])
        if P["name"] in split and P["sec"]>1:
            n=P["sec"]; hs = np.linspace(S["J"][f]["h"], S["J"][t]["h"], n+1); prev = jm[f]
            for s in range(n):
                if s<n-1:
                    nj = pp.create_junction(net, 3.0, S["J"][f]["T"] + (S["J"][t]["T"]-S["J"][f]["T"])*(s+1)/n, float(hs[s+1]), name="%s_n%d"%(P["name"],s), index=nextj); nextj+=1
                else: nj = jm[t]
                pp.create_pipe_from_parameters(net, prev, nj, P["L"]/n, P["d"], k_mm=P["k"], loss_coefficient=P["z"], sections=1, name="%s_s%d"%(P["name"],s)); prev=nj
        else:
            idx = None if rng is None else int(rng.integers(0, 10**6))
            pp.create_pipe_from_parameters(net, jm[f], jm[t], P["L"], P["d"], k_mm=P["k"], loss_coefficient=P["z"], sections=P["sec"], name=P["name"], index=idx)
    for s in S["S"]: pp.create_sink(net, jm[s["j"]], s["m"], name=s["name"])
    for e in S["E"]: pp.create_ext_grid(net, jm[e["j"]], e["p"], e["t"])
    if rng is not None:
        for t in ["junction","pipe","sink"]: net[t] = net[t].sample(frac=1, random_state=int(rng.integers(1e6)))
    return net
def res(net):
    pj = net.res_junction.p_bar.copy(); pj.index = net.junction.name
    pm = net.res_pipe.mdot_from_kg_per_s.copy(); pm.index = net.pipe.name
    return pj, pm
for fluid in ["water","lgas"]:
    dj=dm=dr=ds=0
    for seed in range(15):
        S = spec(seed, fluid); a = build(S); pp.pipeflow(a, **T); pj, pm = res(a)
        rng = np.random.default_rng(seed+99)
        labels = rng.choice([3, 17, 250, 99999, 100001, 2**20, 123456789, 5, 64, 1000, 4242, 77], len(S["J"]), replace=False)
        b = build(S, jmap={i:int(l) for i,l in enumerate(labels)}, perm_seed=seed); pp.pipeflow(b, **T); qj, qm = res(b)
        dj = max(dj, (pj - qj.reindex(pj.index)).abs().max()); dm = max(dm, (pm - qm.reindex(pm.index)).abs().max())
        rev = {P["name"] for P in S["P"] if rng.random()<0.5}
        c = build(S, reverse=rev); pp.pipeflow(c, **T); rj, rm = res(c)
        sign = pd.Series({n: (-1 if n in rev else 1) for n in pm.index})
        dr = max(dr, (pj-rj).abs().max(), (pm - sign*rm.reindex(pm.index)).abs().max())
        sp = {P["name"] for P in S["P"] if P["sec"]>1}
        d = build(S, split=sp); pp.pipeflow(d, **T); sj, sm = res(d)
        ds = max(ds, (pj - sj.reindex(pj.index)).abs().max())
    print(fluid, "relabel+permute: max|dp| %.2e max|dm| %.2e | reverse: %.2e | split sections into series pipes: max|dp| %.2e"%(dj, dm, dr, ds))
