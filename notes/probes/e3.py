import numpy as np, pandas as pd, pandapipes as pp, logging
logging.disable(logging.WARNING)
# C09: loss coefficient & sections
def mk(sections, lc, fluid="water"):
    net = pp.create_empty_network(fluid=fluid)
    j = pp.create_junctions(net, 2, pn_bar=5, tfluid_k=300)
    pp.create_ext_grid(net, j[0], p_bar=5, t_k=300)
    pp.create_pipe_from_parameters(net, j[0], j[1], 0.5, 100, sections=sections, loss_coefficient=lc)
    pp.create_sink(net, j[1], 5.0)
    pp.pipeflow(net, iter=100)
    return net.res_junction.p_bar.values[1]
for lc in [0, 5]:
    print("lc",lc, [mk(s, lc) for s in (1,2,4)])
# n pipes in series each with lc
def mkser(n, lc):
    net = pp.create_empty_network(fluid="water")
    j = pp.create_junctions(net, n+1, pn_bar=5, tfluid_k=300)
    pp.create_ext_grid(net, j[0], p_bar=5, t_k=300)
    for i in range(n):
        pp.create_pipe_from_parameters(net, j[i], j[i+1], 0.5/n, 100, loss_coefficient=lc)
    pp.create_sink(net, j[n], 5.0)
    pp.pipeflow(net, iter=100)
    return net.res_junction.p_bar.values[-1]
print("series lc=5 each", [mkser(n,5) for n in (1,2,4)])
