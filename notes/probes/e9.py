import numpy as np, pandas as pd, pandapipes as pp, logging, copy
logging.disable(logging.CRITICAL)
net = pp.create_empty_network(fluid="water")
j = pp.create_junctions(net, 8, 5, 300)
pp.create_circ_pump_const_pressure(net, j[3], j[0], p_flow_bar=5, plift_bar=2, t_flow_k=350)
pp.create_pipe_from_parameters(net, j[0], j[1], 0.2, 100, u_w_per_m2k=5)
pp.create_heat_consumer(net, j[1], j[2], qext_w=20000, controlled_mdot_kg_per_s=0.5)
pp.create_heat_consumer(net, j[1], j[2], qext_w=30000, controlled_mdot_kg_per_s=0.7, in_service=False)
pp.create_pipe_from_parameters(net, j[2], j[3], 0.2, 100, u_w_per_m2k=5)
# island: unsupplied part
pp.create_pipe_from_parameters(net, j[4], j[5], 0.2, 100)
pp.create_heat_consumer(net, j[4], j[5], qext_w=1000, controlled_mdot_kg_per_s=0.1)
pp.create_sink(net, j[5], 0.3)
pp.create_pressure_control(net, j[1], j[2], j[2], 3.0, in_service=False)
pp.create_pump(net, j[1], j[2], "P1", in_service=False)
pp.create_circ_pump_const_mass_flow(net, j[3], j[0], 5, 1.0, 350, in_service=False)
pp.create_ext_grid(net, j[6], 4.0, 300)   # ext grid at junction 6 which is out of service
net.junction.loc[j[6], "in_service"] = False
pp.create_ext_grid(net, j[7], 4.0, 300, in_service=False)
pp.pipeflow(net, mode="sequential", iter=100)
pd.set_option("display.width", 250); pd.set_option("display.max_columns", 30)
print(net.res_junction.T)
for t in ["res_heat_consumer","res_press_control","res_pump","res_circ_pump_mass","res_circ_pump_pressure","res_ext_grid","res_sink","res_pipe"]:
    print(t); print(net[t].T)
