import numpy as np, pandas as pd, pandapipes as pp, logging, io, tempfile, os
logging.disable(logging.CRITICAL)
from pandapipes.properties.fluids import *
from pandapipes.std_types.std_type_class import PumpStdType
net = pp.create_empty_network("n1", fluid="water")
j = pp.create_junctions(net, 4, 5, 300, index=[7,3,9,100], name=["a","b",None,"d"], geodata=[(0,0),(1,0),(2,0),(3,1)])
pp.create_ext_grid(net, 7, p_bar=5, t_k=350)
pp.create_pipe_from_parameters(net, 7, 3, 0.5, 100, index=5, custom_col="x")
pp.create_pipe(net, 3, 9, "100_GGG", 0.5, index=2, geodata=[(1,0),(2,0)])
pp.create_pump_from_parameters(net, 9, 100, "mypump", pressure_list=[6,5,4], flowrate_list=[0,20,80], reg_polynomial_degree=2)
pp.create_sink(net, 100, 1.0)
pp.create_valve(net, 3, 2, "pi", 100)
net.fluid.add_property("foo", FluidPropertyLinear(2.0, 1.0)); net.fluid.add_property("bar", FluidPropertyPolynominal([0,1,2,3],[1,2,5,10],2)); net.fluid.add_property("sut", FluidPropertySutherland(1e-5, 273., 110.))
pp.set_user_pf_options(net, friction_model="colebrook", iter=30)
pp.pipeflow(net)
def cmp(a, b, tag):
    diffs = []
    for k in a.keys():
        if k.startswith("_"): continue
        if k not in b: diffs.append(("missing", k)); continue
        if isinstance(a[k], pd.DataFrame):
            x, y = a[k], b[k]
            if list(x.columns)!=list(y.columns): diffs.append((k,"columns", list(x.columns), list(y.columns)))
            if not x.index.equals(y.index): diffs.append((k,"index", x.index.tolist(), str(x.index.dtype), y.index.tolist(), str(y.index.dtype)))
            d = {c:(str(x[c].dtype), str(y[c].dtype)) for c in x.columns if c in y.columns and x[c].dtype!=y[c].dtype}
            if d: diffs.append((k,"dtypes",d))
    for k in b.keys():
        if not k.startswith("_") and k not in a: diffs.append(("extra", k))
    print(tag, "nets_equal", pp.nets_equal(a,b), "| diffs:", diffs[:12])
    print("   fluid props", {k: type(v).__name__ for k,v in b.fluid.all_properties.items()})
    print("   std pump", type(b.std_types["pump"].get("mypump")).__name__, "user opts", b.user_pf_options, "sector", repr(b.sector), "comp", len(b.component_list))
s = pp.to_json(net); n2 = pp.from_json_string(s); cmp(net, n2, "json-string")
try:
    pp.pipeflow(n2); print("   rerun max diff p", (n2.res_junction.p_bar.sort_index()-net.res_junction.p_bar.sort_index()).abs().max())
except Exception as e: print("   rerun fail", type(e).__name__, e)
s = pp.to_json(net, encryption_key="k"); n3 = pp.from_json_string(s, encryption_key="k"); cmp(net, n3, "json-enc")
d = tempfile.mkdtemp(); pp.to_pickle(net, os.path.join(d,"a.p")); n4 = pp.from_pickle(os.path.join(d,"a.p")); cmp(net, n4, "pickle")
try: pp.pipeflow(n4); print("   rerun max diff p", (n4.res_junction.p_bar-net.res_junction.p_bar).abs().max())
except Exception as e: print("   rerun fail", type(e).__name__, e)
pp.to_json(net, os.path.join(d,"a.json")); n5 = pp.from_json(os.path.join(d,"a.json")); cmp(net, n5, "json-file")
