import numpy as np, pandas as pd, pandapipes as pp, logging
logging.disable(logging.CRITICAL)
for name in ["water","air","lgas","hgas","hydrogen","methane","biomethane_pure","biomethane_treated"]:
    f = pp.call_lib(name)
    for q in [300.0, np.array([300.0, 310.0]), np.array([300.0]), pd.Series([300.0, 310.]), [300., 310.]]:
        out = {}
        for prop, fn in [("density", f.get_density), ("visc", f.get_viscosity), ("cp", f.get_heat_capacity), ("compr", f.get_compressibility)]:
            try:
                r = fn(q); out[prop] = (type(r).__name__, np.shape(r))
            except Exception as e: out[prop] = type(e).__name__
        if name in ("water","lgas"): print(name, type(q).__name__, np.shape(q), out)
    print(name, "molar", f.get_molar_mass(), "der_comp", f.get_der_compressibility(), "slope", (f.get_compressibility(2.0)-f.get_compressibility(1.0)))
